"""C13 JMESPath evaluation follows the specification - function registry, argument typestate, step zero, const document."""
import json, os
from .. import frontend as F, ast as A, cfg as C, util as U, guards as G

EXPLANATION = ('(R13.1) the built-in function registry (name -> function object -> class -> arity given to function_base) equals the JMESPath '
               'built-in table in /verif/spec; (R13.2) in every built-in evaluate(), args[k] is accessed only for k below the declared '
               'arity and after the arity test, and args[k].value()/expression() only under the matching is_value()/is_expression() test; '
               '(R13.3) a slice step of 0 stores step_cannot_be_zero before any loop runs; (R13.4) evaluation cannot modify the document: '
               'every public entry point takes the document as const Json& and every evaluate() returns const Json& (type-level facts from '
               'Sema); (R05.5) the slice loops clamp the step (shared with C05).')
NOT_DECIDED = 'the values returned (projection scoping, truthiness, function results); only the listed structural clauses are decided'

OPKIND = {'eq_op': '==', 'ne_op': '!=', 'lt_op': '<', 'lte_op': '<=', 'gt_op': '>', 'gte_op': '>='}

def r13_6(chk, facts):
    """Comparator classes: operator kind (constructor) vs the C++ operator applied, operand order, and the number guard of the ordering comparators."""
    chk.rule('R13.6', 'comparators: the class registered as operator_kind K returns `lhs K rhs ? true : false` with the operands in that order; the ordering '
                      'comparators (< <= > >=) compare only when both operands are numbers and return null otherwise', floor=6)
    kinds = {}
    for f in facts.functions:
        if f.get('fk') == 'CXXConstructor' and not f.get('dep') and f['file'].endswith('jmespath.hpp'):
            for ini in f.get('inits') or []:
                for y in A.walk(ini.get('init')):
                    if y.get('k') == 'DeclRefExpr' and y.get('dk') == 'EnumConstant' and y.get('n') in OPKIND and 'operator_kind' in (y.get('q') or ''):
                        kinds[f.get('cls')] = y['n']
    chk.require(len(set(kinds.values())) >= 6, 'R13.6: comparator classes found for %s only' % sorted(set(kinds.values())))
    seen = set()
    for f in facts.functions:
        if f['n'] != 'evaluate' or f.get('cls') not in kinds or f.get('body') is None or f.get('dep'): continue
        kind = kinds[f['cls']]
        key = A.strip_targs(f['cls']).split('::')[-1]
        if key in seen: continue
        seen.add(key)
        chk.analysed(f)
        want = OPKIND[kind]
        pn = [p['n'] for p in f['params'][:2]]
        g = C.CFG(f['body'])
        found = None
        for nd in g.rpo:
            if nd.kind != 'return': continue
            v = A.strip(nd.ast.get('val'), casts=True)
            if v is None or v.get('k') != 'ConditionalOperator': continue
            c = G.comparison(v.get('cond'))
            if not c: continue
            found = (nd, c, v)
        site = U.site(f, 'comparison')
        if found is None:
            # eq/ne may return through a helper; only the shape `a OP b ? true : false` is decided
            chk.fail('R13.6', site, f['file'], f['l'], '%s::evaluate has no `lhs %s rhs ? true_value() : false_value()` return' % (key, want), None, f['q']); continue
        nd, (op, l, r), v = found
        order = [A.ref_name(l), A.ref_name(r)]
        tv = [A.callee_name(c2) for c2 in A.calls_in(v.get('then'))]; fv = [A.callee_name(c2) for c2 in A.calls_in(v.get('else'))]
        problems = []
        if op != want: problems.append('applies `%s`, registered as %s (`%s`)' % (op, kind, want))
        if order != pn: problems.append('operands are (%s, %s), parameters are (%s, %s)' % (order[0], order[1], pn[0], pn[1]))
        if 'true_value' not in tv or 'false_value' not in fv: problems.append('true/false results are swapped or missing')
        if want in ('<', '<=', '>', '>='):
            gs = set()
            for a, lab, e in g.guards(nd):
                s2 = A.strip(a, casts=True)
                if s2 is not None and s2.get('k') in A.CALLS and A.callee_name(s2) == 'is_number' and lab is True: gs.add(A.ref_name(s2.get('obj')))
            if not set(pn) <= gs: problems.append('the comparison is reached without is_number() holding for %s' % ' and '.join(sorted(set(pn) - gs)))
        if not problems: chk.ok('R13.6', site, {'class': key, 'kind': kind, 'operator': op})
        else: chk.fail('R13.6', site, f['file'], nd.line, '%s: %s' % (key, '; '.join(problems)), {'kind': kind}, f['q'])

def r13_7(chk, facts):
    """operator_table::precedence_level / is_right_associative evaluated for every operator_kind."""
    from .. import peval as P
    chk.rule('R13.7', 'operator table: precedence_level(kind) is ordered or > and > equality >= ordering comparators > projections >= not (a lower '
                      'level binds tighter), all members of one class share a level, and only not/projection are right-associative', floor=10)
    en = U.enum_by_suffix(facts, 'jmespath::operator_kind')
    names = U.enum_value_names(en)
    byname = {v: k for k, v in names.items()}
    res = {}
    for fname in ('precedence_level', 'is_right_associative'):
        fns = [f for f in facts.functions if f['n'] == fname and 'operator_table' in (f.get('cls') or '') and f.get('body') is not None and not f.get('dep')]
        chk.require(fns, 'operator_table::%s not found' % fname)
        fn = fns[0]; chk.analysed(fn)
        for v, nm in sorted(names.items()):
            pe = P.PEval(facts, fn, max_depth=0)
            pe.exec_body(fn, {fn['params'][0]['id']: v})
            rets = [e.extra.get('value') for e in pe.effects if e.kind == 'return' and not e.guards]
            res.setdefault(fname, {})[nm] = rets[0] if rets else None
    prec = res['precedence_level']; ra = res['is_right_associative']
    classes = [('or_op',), ('and_op',), ('eq_op', 'ne_op'), ('lt_op', 'lte_op', 'gt_op', 'gte_op'), ('projection_op', 'flatten_projection_op'), ('not_op',)]
    file = 'include/jsoncons_ext/jmespath/jmespath.hpp'
    levels = []
    for cl in classes:
        vals = {prec.get(c) for c in cl}
        site = '%s operator_table precedence %s' % (file, '/'.join(cl))
        if len(vals) == 1 and None not in vals: chk.ok('R13.7', site, {'level': list(vals)[0]}); levels.append(list(vals)[0])
        else: chk.fail('R13.7', site, file, 57, 'operators of one precedence class have levels %s' % {c: prec.get(c) for c in cl}, None); levels.append(None)
    site = '%s operator_table precedence order' % file
    l = levels
    ok = None not in l and l[0] > l[1] > l[2] >= l[3] > l[4] >= l[5]
    if ok: chk.ok('R13.7', site, {'levels': l})
    else: chk.fail('R13.7', site, file, 57, 'precedence levels or=%s and=%s equality=%s ordering=%s projection=%s not=%s are not ordered or > and > equality >= ordering > projection >= not' % tuple(l), None)
    for nm in sorted(byname):
        want = nm in ('not_op', 'projection_op')
        site = '%s operator_table associativity %s' % (file, nm)
        if nm not in ra: continue
        if bool(ra[nm]) == want: chk.ok('R13.7', site, None)
        else: chk.fail('R13.7', site, file, 57, 'is_right_associative(%s) is %s' % (nm, ra[nm]), None)

def r13_9(chk, facts):
    """Sibling agreement: max/min and max_by/min_by are mirror images."""
    import re as _re
    chk.rule('R13.9', 'extremum functions: max and min (max_by and min_by) have the same guarded effects once the single running comparison is '
                      'mirrored (`>` in max*, `<` in min*): same type checks, same error returns, and the running best and its index are updated together', floor=2)
    def summary(fn):
        g = C.CFG(fn['body'])
        al = A.pure_aliases(fn['body'])
        out = set(); ops = set()
        def render(a, lab):
            c = G.comparison(a)
            if c and c[0] in ('<', '>', '<=', '>=') and not any(A.callee_name(y) in ('size', 'length') for y in A.calls_in(a)):
                ops.add(c[0]); return ('' if lab else '!') + 'RUNNING(%s, %s)' % (A.canon(c[1], al), A.canon(c[2], al))
            return A.canon(a, al, neg=not lab)
        for nd in g.rpo:
            if nd.kind not in ('stmt', 'return') or not isinstance(nd.ast, dict): continue
            if A.is_alias_decl(nd.ast, al): continue
            gs = tuple(sorted(set(render(a, lab) for a, lab, e in g.guards(nd) if lab in (True, False))))
            out.add((gs, ('return ' + A.canon(nd.ast.get('val'), al)) if nd.kind == 'return' else (A.canon(nd.ast, al) if nd.ast.get('k') != 'DeclStmt' else A.text(nd.ast))))
        return out, ops
    for a, b in (('max_function', 'min_function'), ('max_by_function', 'min_by_function')):
        fa = [f for f in facts.functions if f['n'] == 'evaluate' and A.strip_targs(f.get('cls') or '').endswith('::' + a) and f.get('body') is not None and not f.get('dep')]
        fb = [f for f in facts.functions if f['n'] == 'evaluate' and A.strip_targs(f.get('cls') or '').endswith('::' + b) and f.get('body') is not None and not f.get('dep')]
        chk.require(fa and fb, 'R13.9: %s / %s not found' % (a, b))
        chk.analysed(fa[0]); chk.analysed(fb[0])
        sa, oa = summary(fa[0]); sb, ob = summary(fb[0])
        site = 'include/jsoncons_ext/jmespath/jmespath.hpp %s vs %s' % (a, b)
        problems = []
        if oa != {'>'}: problems.append('%s compares with %s (expected a single `>`)' % (a, sorted(oa)))
        if ob != {'<'}: problems.append('%s compares with %s (expected a single `<`)' % (b, sorted(ob)))
        if sa != sb:
            da = sorted(sa - sb); db = sorted(sb - sa)
            def show(x): return '%s%s' % (x[1][:50], (' under ' + ' & '.join(g2[:40] for g2 in x[0][-2:])) if x[0] else '')
            problems.append('they differ: only %s: [%s]; only %s: [%s]' % (a, '; '.join(show(x) for x in da[:3]), b, '; '.join(show(x) for x in db[:3])))
        if not problems: chk.ok('R13.9', site, {'effects': len(sa)})
        else: chk.fail('R13.9', site, fa[0]['file'], fa[0]['l'], '; '.join(problems), None, fa[0]['q'])

def r13_10(chk, facts):
    """sort() and sort_by() keep the relative order of equal elements."""
    chk.rule('R13.10', 'stable sorting: every sort call in the JMESPath function library is std::stable_sort (sort and sort_by leave elements that '
                       'compare equal in their original order; with std::sort the result of sort_by on equal keys is unspecified)', floor=3)
    n = 0; seen = set()
    for fn in facts.functions:
        if fn.get('body') is None or fn.get('dep') or not fn['file'].endswith('jmespath/jmespath.hpp'): continue
        for c in A.calls_in(fn['body']):
            if c.get('k') != 'CallExpr' or A.callee_name(c) not in ('sort', 'stable_sort', 'partial_sort', 'nth_element') or not (c.get('cq') or '').startswith('std::'): continue
            if (fn['file'], c.get('l')) in seen: continue
            seen.add((fn['file'], c.get('l'))); n += 1
            chk.analysed(fn)
            site = U.site(fn, 'sort call at line %s' % c.get('l'))
            if A.callee_name(c) == 'stable_sort': chk.ok('R13.10', site, None)
            else: chk.fail('R13.10', site, fn['file'], c.get('l'), '%s sorts with std::%s: elements with equal keys may change their relative order' % (
                A.strip_targs(fn.get('cls') or fn['n']).split('::')[-1], A.callee_name(c)), None, fn['q'])
    chk.require(n >= 3, 'R13.10: only %d sort calls found in jmespath.hpp' % n)

def r13_11(chk, facts):
    """merge(): later objects override earlier ones - for every kind of value."""
    chk.rule('R13.11', 'merge() overriding: every insertion into the result object of merge_function::evaluate is an insert_or_assign (a later '
                       'argument replaces the member of an earlier one); try_emplace / emplace / insert keep the first value, so an array or '
                       'object member of a later argument would be ignored', floor=1)
    fns = [f for f in facts.functions if f['n'] == 'evaluate' and A.strip_targs(f.get('cls') or '').endswith('::merge_function') and f.get('body') is not None and not f.get('dep')]
    chk.require(fns, 'jmespath merge_function::evaluate not found')
    fn = U.one_per_inst(fns)[0]
    chk.analysed(fn)
    ins = [c for c in A.calls_in(fn['body'], no_lambda=True) if c.get('k') == 'CXXMemberCallExpr' and A.callee_name(c) in ('insert_or_assign', 'try_emplace', 'emplace', 'insert', 'set', 'emplace_back', 'push_back')
           and 'basic_json' in (c.get('cq') or '')]
    chk.require(ins, 'merge_function::evaluate: no insertion into the result found')
    for i, c in enumerate(ins):
        site = U.site(fn, 'insertion #%d' % (i + 1))
        if A.callee_name(c) == 'insert_or_assign': chk.ok('R13.11', site, {'line': c.get('l')})
        else: chk.fail('R13.11', site, fn['file'], c.get('l'), 'merge() adds a member with %s (line %s): a member already taken from an earlier argument is kept, the later one is ignored' % (A.callee_name(c), c.get('l')), None, fn['q'])

def r13_12(chk, facts):
    """A value computed by a nested evaluation goes into a result only if that evaluation succeeded."""
    chk.rule('R13.12', 'nested evaluation errors: where evaluate() of a function or expression stores the value of a nested `x.evaluate(..., e)` in '
                       'the container it returns (emplace_back / push_back / insert_or_assign / try_emplace of the value or its address), the '
                       'store is reached only after a test of the error_code `e` that the nested evaluation was given; a value stored '
                       'without it turns an evaluation error into a null element of a successful result', floor=2)
    n = 0
    for fn in U.one_per_inst([f for f in facts.functions if f['n'] == 'evaluate' and f.get('body') is not None and not f.get('dep') and f['file'].endswith('jmespath.hpp')]):
        binds = []
        for d in A.walk_no_lambda(fn['body']):
            if d.get('k') != 'VarDecl' or d.get('init') is None: continue
            c = next((y for y in A.walk(d['init']) if y.get('k') == 'CXXMemberCallExpr' and A.callee_name(y) == 'evaluate' and (y.get('args') or [])), None)
            if c is None: continue
            e = A.strip(c['args'][-1], casts=True)
            if e is None or e.get('k') != 'DeclRefExpr' or 'error_code' not in F.tname(fn, e.get('t')): continue
            binds.append((d, c, e))
        if not binds: continue
        g = None
        for d, c, e in binds:
            stores = []
            for y in A.walk_no_lambda(fn['body']):
                if y.get('k') == 'CXXMemberCallExpr' and A.callee_name(y) in ('emplace_back', 'push_back', 'insert_or_assign', 'try_emplace', 'insert') and \
                   any(z.get('k') == 'DeclRefExpr' and z.get('id') == d.get('id') for a in (y.get('args') or []) for z in A.walk(a)): stores.append(y)
            if not stores: continue
            if g is None: g = C.CFG(fn['body'])
            chk.analysed(fn)
            cn = g.node_of(c)
            for st in stores:
                n += 1
                sn = g.node_of(st)
                site = U.site(fn, 'store of %s@%d' % (d.get('n'), st.get('l', 0) - fn['l']))
                ok = False
                for a, lab, ed in (g.guards(sn) if sn is not None else []):
                    t = A.strip(a, casts=True)
                    refs = [z for z in A.walk(a) if z.get('k') == 'DeclRefExpr' and z.get('id') == e.get('id')]
                    if refs and G.comparison(a) is None and lab is False and (cn is None or g.dominates(cn, ed)): ok = True
                cls = A.strip_targs(fn.get('cls') or '').split('::')[-1]
                if ok: chk.ok('R13.12', site, {'class': cls, 'line': st.get('l'), 'error_code': e.get('n')})
                else:
                    chk.fail('R13.12', site, fn['file'], st.get('l'), '%s::evaluate stores `%s`, the value of a nested evaluate(..., %s) (line %s), in its result without having tested %s: '
                             'an element for which the expression cannot be evaluated becomes a null entry of a result that reports success' % (cls, d.get('n'), e.get('n'), c.get('l'), e.get('n')), None, fn['q'])
    chk.require(n >= 2, 'R13.12: only %d stores of nested evaluation values found' % n)

def run(chk, tier, only_rule=None):
    chk.explanation = EXPLANATION
    chk.not_decided = NOT_DECIDED
    facts = F.load(['jmespath'], tier)
    chk.units = ['jmespath']
    spec = json.load(open(os.path.join(F.VERIF, 'spec', 'jmespath_functions.json')))['functions']
    chk.rule('R13.1', 'registry: the set of built-in names equals the specification table, each name is bound to the function class of the same name, '
                      'and the arity passed to function_base equals the specification arity (variadic = no fixed arity)', floor=26)
    chk.rule('R13.2', 'argument typestate: args[k] only for k < arity and after the arity test; value()/expression() only under is_value()/is_expression()', floor=40)
    chk.rule('R13.3', 'slice: step == 0 stores step_cannot_be_zero and returns before the loops', floor=1)
    chk.rule('R13.4', 'const document: public search/evaluate entry points take const Json&, and evaluate() of every expression/function returns const Json&', floor=20)
    # ---- R13.1
    vs = [v for v in facts.vars if v['n'] == 'functions_' and not v.get('dep') and 'get_function' in v.get('fn', '')]
    chk.require(vs, 'static_resources::get_function::functions_ not found')
    v = vs[0]
    def chars(n): return ''.join(chr(A.const(x)) for x in A.walk(n) if x.get('k') == 'CharacterLiteral')
    pairs = {}
    for x in A.walk(v['init']):
        if x.get('k') in ('InitListExpr', 'CXXConstructExpr', 'CXXTemporaryObjectExpr'):
            ch = x.get('c') or x.get('args') or []
            if len(ch) == 2:
                amp = [y for y in A.walk(ch[1]) if y.get('k') == 'UnaryOperator' and y.get('op') == '&']
                if amp and chars(ch[0]): pairs[chars(ch[0])] = A.strip(amp[0].get('sub'))
    chk.require(len(pairs) >= 20, 'R13.1: only %d registry entries parsed' % len(pairs))
    var_type = {}
    for w in facts.vars:
        if w.get('fn') == v.get('fn') and w['_unit'] == v['_unit']: var_type[w['id']] = F.tname(w, w['t'])
    arity_of = {}
    for fn in facts.functions:
        if fn.get('fk') == 'CXXConstructor' and not fn.get('dep') and fn.get('cls', '').endswith('_function') and 'basic_json<char>>' in fn.get('cls', ''):
            for ini in fn.get('inits') or []:
                if ini.get('m') is None:
                    a = None
                    for y in A.walk(ini.get('init')):
                        if y.get('k') == 'IntegerLiteral': a = y.get('v'); break
                    cname = A.strip_targs(fn['cls']).rsplit('::', 1)[-1]
                    arity_of[cname] = a if a is not None else 'variadic'
    for name in sorted(set(spec) | set(pairs)):
        site = 'include/jsoncons_ext/jmespath/jmespath.hpp registry %s' % name
        if name not in pairs:
            chk.fail('R13.1', site, v['file'], v['l'], 'built-in function `%s` of the JMESPath specification is not registered' % name, None, v['q']); continue
        if name not in spec:
            chk.fail('R13.1', site, v['file'], v['l'], 'registry has `%s`, which is not a JMESPath built-in' % name, None, v['q']); continue
        ref = pairs[name]
        t = var_type.get(ref.get('id'), '')
        cname = A.strip_targs(t.replace('const ', '')).rsplit('::', 1)[-1]
        want_cls = name + '_function'
        ar = arity_of.get(cname)
        want_ar = spec[name] if isinstance(spec[name], int) else 'variadic'
        facts_ = {'name': name, 'class': cname, 'arity': ar, 'spec_arity': spec[name]}
        if cname != want_cls:
            chk.fail('R13.1', site, v['file'], ref.get('l', v['l']), 'name `%s` is bound to %s instead of %s' % (name, cname, want_cls), facts_, v['q'])
        elif ar != want_ar:
            chk.fail('R13.1', site, v['file'], v['l'], '%s declares arity %s, the specification says %s' % (cname, ar, spec[name]), facts_, v['q'])
        else:
            chk.ok('R13.1', site, facts_)
    # ---- R13.2
    n2 = 0
    for fn in facts.functions:
        if fn.get('dep') or fn.get('body') is None or fn['n'] != 'evaluate': continue
        cls = fn.get('cls', '')
        cname = A.strip_targs(cls).rsplit('::', 1)[-1]
        if not cname.endswith('_function') or 'basic_json<char>>' not in cls: continue
        ar = arity_of.get(cname)
        argp = [p for p in fn['params'] if p['n'] == 'args']
        if not argp: continue
        chk.analysed(fn)
        g = C.CFG(fn['body'])
        for x in A.walk_no_lambda(fn['body']):
            if x.get('k') == 'CXXOperatorCallExpr' and x.get('oop') == '[]' and len(x.get('args') or []) == 2:
                o = A.strip(x['args'][0], casts=True)
                if o is None or o.get('id') != argp[0]['id']: continue
                k = A.const(x['args'][1])
                nd = g.node_of(x)
                n2 += 1
                site = U.site(fn, 'args[%s]@%d' % (k, x.get('l', 0) - fn['l']))
                if k is None:
                    chk.ok('R13.2', site, None, nontrivial=False); continue
                if isinstance(ar, int) and k >= ar:
                    chk.fail('R13.2', U.site(fn, 'args[%s]' % k), fn['file'], x.get('l'), '%s::evaluate reads args[%s] but declares arity %s' % (cname, k, ar), None, fn['q']); continue
                if not isinstance(ar, int):
                    okv = any((('args.empty()' in A.text(a) and lab is False) or ('args.size()' in A.text(a))) for a, lab, e in (g.guards(nd) if nd else []))
                    if okv and k == 0: chk.ok('R13.2', site, None, nontrivial=True)
                    else: chk.fail('R13.2', U.site(fn, 'args[%s]' % k), fn['file'], x.get('l'), 'variadic %s::evaluate reads args[%s] without a test of args.empty()/args.size()' % (cname, k), None, fn['q'])
                    continue
                # arity test dominates
                ok = False
                for cond_ast, label, edge in (g.guards(nd) if nd else []):
                    t = A.text(cond_ast)
                    if 'args.size()' in t and label is True: ok = True
                if ok: chk.ok('R13.2', site, None, nontrivial=(n2 % 10 == 1))
                else: chk.fail('R13.2', U.site(fn, 'args[%s] arity test' % k), fn['file'], x.get('l'), '%s::evaluate reads args[%s] without a dominating arity test' % (cname, k), None, fn['q'])
        # value()/expression() typestate
        for x in A.walk_no_lambda(fn['body']):
            if x.get('k') == 'CXXMemberCallExpr' and A.callee_name(x) in ('value', 'expression'):
                o = A.strip(x.get('obj'), casts=True)
                if o is None or o.get('k') != 'CXXOperatorCallExpr' or o.get('oop') != '[]': continue
                b = A.strip((o.get('args') or [None])[0], casts=True)
                if b is None or b.get('id') != argp[0]['id']: continue
                k = A.const(o['args'][1])
                pred = 'is_value' if A.callee_name(x) == 'value' else 'is_expression'
                nd = g.node_of(x)
                ok = False
                # (i) a loop over all arguments that rejects non-values dominates the access
                for lp in A.walk_no_lambda(fn['body']):
                    if lp.get('k') == 'CXXForRangeStmt' and A.ref_name(lp.get('range')) == 'args' and pred == 'is_value':
                        vn = (lp.get('var') or {}).get('n')
                        rej = any(y.get('k') == 'IfStmt' and ('%s.is_value()' % vn) in A.text(y.get('cond')) and '!' in A.text(y.get('cond')) and
                                  any(z.get('k') == 'ReturnStmt' for z in A.walk(y.get('then'))) for y in A.walk_no_lambda(lp.get('body')))
                        ln = g.node_of(lp.get('range'))
                        if rej and ln is not None and nd is not None and g.dominates(ln, nd): ok = True
                # (i') the same rejection written with a standard algorithm over all arguments:
                #      std::all_of(args.begin(), args.end(), [](const parameter& p) { return p.is_value(); }) holds on the way here
                #      (or any_of / none_of with the negated predicate)
                for cond_ast, label, edge in (g.guards(nd) if nd is not None and pred == 'is_value' else []):
                    c0 = A.strip(cond_ast, casts=True)
                    if c0 is None or not A.is_call(c0) or A.callee_name(c0) not in ('all_of', 'any_of', 'none_of'): continue
                    aa = c0.get('args') or []
                    if len(aa) != 3: continue
                    rng = [A.strip(y, casts=True) for y in aa[:2]]
                    if not all(r is not None and A.is_call(r) and A.callee_name(r) in ('begin', 'end', 'cbegin', 'cend') and (A.strip(r.get('obj'), casts=True) or {}).get('id') == argp[0]['id'] for r in rng): continue
                    if [A.callee_name(r).lstrip('c') for r in rng] != ['begin', 'end']: continue
                    le = next((y for y in A.walk(aa[2]) if y.get('k') == 'LambdaExpr'), None)
                    if le is None or len(le.get('params') or []) != 1: continue
                    st = (le.get('body') or {}).get('c') or []
                    if len(st) != 1 or st[0].get('k') != 'ReturnStmt': continue
                    rv = A.strip(st[0].get('val'), casts=True); neg = False
                    while rv is not None and rv.get('k') == 'UnaryOperator' and rv.get('op') == '!':
                        neg = not neg; rv = A.strip(rv.get('sub'), casts=True)
                    if rv is None or not A.is_call(rv) or A.callee_name(rv) != 'is_value' or (A.strip(rv.get('obj'), casts=True) or {}).get('id') != le['params'][0]['id']: continue
                    alg = A.callee_name(c0)
                    holds = (alg == 'all_of' and not neg and label is True) or (alg == 'any_of' and neg and label is False) or (alg == 'none_of' and neg and label is True)
                    if holds: ok = True
                # (ii) `reference r = args[k].value();` only binds a reference: the obligation is on the uses of r
                decl = None
                if nd is not None and isinstance(nd.ast, dict) and nd.ast.get('k') == 'DeclStmt':
                    for d in nd.ast.get('decls') or []:
                        tn = fn['_types'][d['t'] - 1] if d.get('t') else ''
                        if d.get('init') is not None and tn.endswith('&') and any(y is x for y in A.walk(d['init'])) and A.strip(d['init'], casts=True) is not None and \
                           (A.strip(d['init'], casts=True) is x or A.strip(d['init'], casts=True).get('l') == x.get('l')):
                            decl = d
                if decl is not None and not ok:
                    uses_ok = True
                    for u in g.rpo:
                        if u is nd or not isinstance(u.ast, dict) or u.kind not in ('stmt', 'cond', 'return', 'switch'): continue
                        if any(y.get('k') == 'DeclRefExpr' and y.get('id') == decl.get('id') for y in A.walk(u.ast)):
                            if not any(('args[%s].%s()' % (k, pred)) in A.text(a) and lab is True for a, lab, e in g.guards(u)): uses_ok = False
                    ok = uses_ok
                for cond_ast, label, edge in (g.guards(nd) if nd else []):
                    t = A.text(cond_ast)
                    if ('args[%s].%s()' % (k, pred)) in t and label is True: ok = True
                    other = 'is_expression' if pred == 'is_value' else 'is_value'
                # early-return form: `if (!args[k].is_value()) {ec=..; return}` gives a False-edge of `!x`, i.e. True of x after decomposition
                n2 += 1
                site = U.site(fn, 'args[%s].%s()@%d' % (k, A.callee_name(x), x.get('l', 0) - fn['l']))
                if ok: chk.ok('R13.2', site, None, nontrivial=(n2 % 10 == 1))
                else: chk.fail('R13.2', U.site(fn, 'args[%s].%s()' % (k, A.callee_name(x))), fn['file'], x.get('l'),
                               '%s::evaluate calls args[%s].%s() without a dominating args[%s].%s() test' % (cname, k, A.callee_name(x), k, pred), None, fn['q'])
    chk.require(n2 >= 40, 'R13.2: only %d argument accesses found' % n2)
    # ---- R13.3
    n3 = 0
    for fn in facts.functions:
        if fn.get('dep') or fn.get('body') is None: continue
        loops = [x for x in A.walk_no_lambda(fn['body']) if x.get('k') == 'ForStmt' and x.get('inc') is not None and
                 (A.strip(x['inc']) or {}).get('k') == 'CompoundAssignOperator' and A.ref_name((A.strip(x['inc']) or {}).get('rhs')) == 'step']
        if not loops: continue
        n3 += 1
        chk.analysed(fn)
        g = C.CFG(fn['body'])
        ok = False
        for nd in g.rpo:
            if nd.kind == 'cond':
                cmp_ = G.comparison(nd.ast)
                if cmp_ and cmp_[0] == '==' and A.ref_name(cmp_[1]) == 'step' and A.const(cmp_[2]) == 0:
                    te = [e for e in nd.succ if e.label is True]; fe = [e for e in nd.succ if e.label is False]
                    stores = te and any(x.kind == 'stmt' and G.assigns_enumerator(x.ast, {'ec'}, 'step_cannot_be_zero') for x in G.block_after(te[0]))
                    rets = te and any(x.kind == 'return' for x in G.block_after(te[0]))
                    dom = fe and all(fe[0] in g.dominators(g.node_of(lp['inc'])) for lp in loops if g.node_of(lp['inc']) is not None)
                    if stores and rets and dom: ok = True
        site = U.site(fn, 'step zero')
        if ok: chk.ok('R13.3', site, {'function': fn['q']})
        else: chk.fail('R13.3', site, fn['file'], loops[0].get('l'), 'slice loops are not dominated by a `step == 0` -> step_cannot_be_zero test', None, fn['q'])
    chk.require(n3 >= 1, 'R13.3: slice function not found')
    # ---- R13.4
    n4 = 0
    seen = set()
    for fn in facts.functions:
        if fn.get('dep'): continue
        if fn['n'] == 'search' and 'jmespath' in fn['q'] and fn['file'].endswith('jmespath.hpp'):
            t0 = F.tname(fn, fn['params'][0]['t'])
            site = U.site(fn, 'doc parameter')
            if site in seen: continue
            seen.add(site); n4 += 1
            if t0.startswith('const ') and t0.endswith('&'): chk.ok('R13.4', site, {'function': fn['q'], 'param': t0[:60]})
            else: chk.fail('R13.4', site, fn['file'], fn['l'], 'search() takes the document as `%s`' % t0[:60], None, fn['q'])
        if fn['n'] == 'evaluate' and fn['file'].endswith('jmespath.hpp') and fn.get('cls'):
            rt = F.tname(fn, fn['ret'])
            if 'basic_json<' not in rt: continue
            site = U.site(fn, 'return type')
            if site in seen: continue
            seen.add(site); n4 += 1
            if rt.endswith('&') and not rt.startswith('const '):
                chk.fail('R13.4', site, fn['file'], fn['l'], 'evaluate() returns a non-const reference `%s` into the document' % rt[:60], None, fn['q'])
            else:
                chk.ok('R13.4', site, None, nontrivial=(n4 % 10 == 1))
    chk.require(n4 >= 20, 'R13.4: only %d entry points/evaluate functions found' % n4)
    # ---- shared slice clamp rule
    from . import c05
    r13_6(chk, facts)
    r13_7(chk, facts)
    r13_9(chk, facts)
    r13_10(chk, facts)
    r13_11(chk, facts)
    r13_12(chk, facts)
    # length(), reverse() and the comparison of strings go through the UTF-8 decoder
    from . import c02
    c02.r02_9(chk, F.load(['core'], tier), rid='R02.9')
    c05.r05_5(chk, tier)
    from . import c12
    c12.r12_3(chk, tier, units=('jmespath',))
    c12.r12_5(chk, tier, units=('jmespath',))
    c12.r12_8(chk, tier)
    c05.r05_6(chk, tier, units=['jmespath'], floor=70)
    c05.r05_7(chk, tier, units=['jmespath'], floor=90)
    c05.r05_14(chk, tier)       # an expression outside the grammar is reported, the compiler does not spin on it
