"""C03 Decoding does not depend on how the input is delivered - structural clauses."""
from .. import frontend as F, ast as A, cfg as C, util as U, guards as G, inline as I, peval as P

EXPLANATION = ('Decides structural necessary conditions of chunking-independence: (R03.1) every suspend point of the '
               'incremental JSON number/string sub-automata stores the state whose dispatch entry jumps back to the label that '
               'suspended; (R03.2) the consumed slice is carried into buffer_/position_ on every suspend; further rules are listed '
               'under coverage.rules.  Each obligation is evaluated on the resolved AST of every instantiation in the drivers.')
NOT_DECIDED = ('equality of event sequences between access modes for all inputs; stream-source stitching arithmetic; '
               'the behaviour itself (only the listed structural clauses are decided)')

def _is_exhaust_edge(ast, label, endvars):
    """True if edge (cond ast, polarity) means 'cursor >= end of buffer'."""
    if not isinstance(label, bool) or ast is None: return False
    s = A.strip(ast)
    if s is None or s.get('k') != 'BinaryOperator': return False
    op = s.get('op')
    l, r = A.ref_name(s.get('lhs')), A.ref_name(s.get('rhs'))
    if r in endvars and l and l not in endvars:
        pass
    elif l in endvars and r and r not in endvars:
        op = {'<': '>', '>': '<', '<=': '>=', '>=': '<='}.get(op, op)
    else:
        return False
    if op in ('>=', '==') and label is True: return True
    if op in ('<', '!=') and label is False: return True
    return False

def dispatch_table(g, state_member):
    """state value -> label name, from the entry switch over `state_member`."""
    table = {}
    sw = None
    for n in g.rpo:
        if n.kind == 'switch' and U.is_member_ref(n.ast, state_member):
            sw = n; break
    if sw is None: return None, None
    for e in sw.succ:
        if e.kind != 'edge' or e.label[0] != 'case': continue
        # follow join -> goto -> label
        cur = e.succ[0]; steps = 0; lab = None
        while cur is not None and steps < 6:
            if cur.kind == 'label': lab = cur.label; break
            if cur.kind == 'goto': lab = cur.label; break
            cur = cur.succ[0] if cur.succ else None; steps += 1
        for v in range(e.label[1], e.label[2] + 1):
            table[v] = lab
    return table, sw

def r03_1_2(chk, facts):
    chk.rule('R03.1', 'resume consistency: the state stored on a buffer-exhausted return of parse_number/parse_string must be '
                      'dispatched (entry switch) back to the label whose region contains that return', floor=18)
    chk.rule('R03.2', 'token carry: every buffer-exhausted return of parse_number (and of the text region of parse_string) '
                      'appends the consumed slice to buffer_ and advances position_', floor=9)
    for fname, member, enum in (('parse_number', 'number_state_', 'parse_number_state'),
                                ('parse_string', 'string_state_', 'parse_string_state')):
        fns = U.functions(facts, cls='basic_json_parser', name=fname)
        chk.require(fns, 'basic_json_parser::%s not found' % fname)
        en = U.enum_value_names(U.enum_by_suffix(facts, '::' + enum))
        for fn in fns:
            chk.analysed(fn)
            g = C.CFG(fn['body'])
            table, sw = dispatch_table(g, member)
            chk.require(table, '%s: entry switch over %s not found' % (fn['q'], member))
            # all enumerators must be dispatched
            for v, n in en.items():
                chk.require(v in table and table[v], '%s: state %s has no dispatch entry' % (fn['q'], n))
            endvars = {'local_input_end', 'input_end_'}
            nsusp = 0
            for r in g.rpo:
                if r.kind != 'return': continue
                saved = None; saved_line = None; edge = None; region = None
                appended = False; pos = False
                for d in g.dominators(r):
                    if d.kind == 'label':
                        region = d.label; break
                    if edge is None:
                        if d.kind == 'stmt':
                            am = U.assigned_member(d.ast)
                            if am and am[0] == member and saved is None:
                                saved = A.const(am[1]); saved_line = d.line
                                if saved is None:
                                    chk.broken('%s:%d: cannot fold the state stored into %s' % (fn['file'], d.line, member))
                            s = A.strip(d.ast)
                            if s is not None and A.is_call(s) and A.callee_name(s) == 'append' and A.ref_name(s.get('obj')) == 'buffer_':
                                appended = True
                            if s is not None and s.get('k') == 'CompoundAssignOperator' and s.get('op') == '+=' and A.ref_name(s.get('lhs')) == 'position_':
                                pos = True
                        if d.kind == 'edge' and _is_exhaust_edge(d.ast, d.label, endvars):
                            edge = d
                if edge is None or region is None:
                    continue
                # the exhaust edge must belong to this region (edge dominated by the label: true by construction of the walk)
                nsusp += 1
                site = U.site(fn, 'label=%s' % region)
                facts_ = {'function': fn['q'], 'label': region, 'return_line': r.line,
                          'saved_state': en.get(saved, saved), 'dispatch_of_saved': table.get(saved),
                          'exhaust_test_line': edge.line}
                if saved is None:
                    chk.fail('R03.1', site + ' saved=none', fn['file'], r.line,
                             'suspend return under label %s stores no resume state' % region, facts_, fn['q'])
                elif table.get(saved) != region:
                    chk.fail('R03.1', site + ' saved=%s' % en.get(saved, saved), fn['file'], saved_line,
                             'suspend under label `%s` stores %s::%s, which resumes at label `%s`' % (
                                 region, enum, en.get(saved, saved), table.get(saved)), facts_, fn['q'])
                else:
                    chk.ok('R03.1', site, facts_)
                if fname == 'parse_number' or region == 'text':
                    if appended and pos:
                        chk.ok('R03.2', site, {'function': fn['q'], 'label': region, 'append': True, 'position': True})
                    else:
                        chk.fail('R03.2', site + ' carry', fn['file'], r.line,
                                 'suspend under label %s does not carry the consumed slice (buffer_.append=%s, position_+= %s)' % (region, appended, pos),
                                 facts_, fn['q'])
            chk.require(nsusp >= 8, '%s: only %d suspend points recognised (expected >= 8)' % (fn['q'], nsusp))

PARSERS = [('core', 'basic_json_parser'), ('cbor', 'basic_cbor_parser'), ('msgpack', 'basic_msgpack_parser'),
           ('ubjson', 'basic_ubjson_parser'), ('bson', 'basic_bson_parser'), ('csv', 'basic_csv_parser')]
EVENTS = ('null_value', 'bool_value', 'int64_value', 'uint64_value', 'double_value', 'half_value', 'string_value', 'byte_string_value',
          'begin_array', 'end_array', 'begin_object', 'end_object', 'key', 'typed_array', 'begin_multi_dim', 'end_multi_dim')

def _is_visitor_event(c):
    if not (A.is_call(c) and A.callee_name(c) in EVENTS and 'visitor' in A.strip_targs(c.get('cq', ''))): return False
    # on a visitor object held or received by the parser (whatever it is called), not on the parser itself
    o = A.strip(c.get('obj'), casts=True)
    return o is not None and o.get('k') in ('DeclRefExpr', 'MemberExpr')

def _sets_more_stop(node):
    """Statement assigns more_ from !cursor_mode_ (or false)."""
    if node.kind != 'stmt' or not isinstance(node.ast, dict): return False
    am = U.assigned_member(node.ast)
    if not am or am[0] != 'more_': return False
    def stop_value(rhs):
        rhs = A.strip(rhs, casts=True)
        if rhs is None: return False
        if A.const(rhs) == 0: return True
        if rhs.get('k') == 'UnaryOperator' and rhs.get('op') == '!' and A.ref_name(rhs.get('sub')) == 'cursor_mode_': return True
        # `cond ? false : !cursor_mode_`: both arms stop a cursor
        if rhs.get('k') == 'ConditionalOperator': return stop_value(rhs.get('then')) and stop_value(rhs.get('else'))
        return False
    return stop_value(am[1])

def r03_5(chk, tier):
    chk.rule('R03.5', 'cursor stop pairing: in the five event-producing parsers every visitor event emission is followed, on every path to '
                      'the function exit that does not pass an error return, by `more_ = !cursor_mode_` (or more_ = false), so that a pull '
                      'cursor sees every event the push visitor sees', floor=90)
    n = 0
    def emits(callee, call=None):
        # a helper that emits an event and leaves the stop to its caller (one that assigns more_ itself is judged on its own)
        if not any(_is_visitor_event(c) for c in A.walk_no_lambda(callee['body'])): return False
        return not any(U.assigned_member(x) and U.assigned_member(x)[0] == 'more_' for x in A.walk_no_lambda(callee['body']) if x.get('k') in ('BinaryOperator', 'CXXOperatorCallExpr'))
    for unit, cls in PARSERS:
        facts = F.load([unit], tier)
        if unit not in chk.units: chk.units.append(unit)
        fns = [fn for fn in U.one_per_inst(U.functions(facts, cls=cls)) if fn.get('body') is not None]
        # an event emitted through a small helper of the parser (`visit_integer(visitor, val, ec)`) is the caller's event: helpers that
        # emit are inlined where they are called in statement position (E11); a helper is then judged on its own only if some call of
        # it was not inlined
        expanded = {}; inlined_q = set(); direct_q = set()
        for fn in fns:
            x = I.expand(facts, fn, allow=emits, depth=2)
            expanded[fn['q']] = x
            skip = set()
            for y in A.walk_no_lambda(x['body']):
                if y.get('k') == 'InlinedCall':
                    inlined_q.add(y.get('q'))
                    if isinstance(y.get('call'), dict): skip.add(id(y['call']))
            for y in A.walk_no_lambda(x['body']):
                if A.is_call(y) and id(y) not in skip:
                    cal = facts.callee(fn, y)
                    if cal is not None and cal.get('body') is not None and not cal.get('dep') and emits(cal): direct_q.add(cal['q'])
        for fn0 in fns:
            fn = expanded[fn0['q']]
            evs = [c for c in A.walk_no_lambda(fn['body']) if _is_visitor_event(c)]
            if not evs: continue
            wrapper_only = fn0['q'] in inlined_q and fn0['q'] not in direct_q
            chk.analysed(fn0)
            g = C.CFG(fn['body'])
            stops = [nd for nd in g.rpo if _sets_more_stop(nd)]
            for i, c in enumerate(evs):
                nd = g.node_of(c)
                if nd is None: continue
                n += 1
                site = U.site(fn, 'event#%d=%s' % (i + 1, A.callee_name(c)))
                # paths from the event to the exit avoiding every stop statement: allowed only through an error return
                # (a return dominated by a test of `ec`)
                reach = g.reachable_from(nd, avoid=stops)
                bad = None
                for r in g.rpo:
                    if r.id not in reach or r is nd: continue
                    if r.kind == 'return' or (r.kind == 'exit'):
                        if r.kind == 'exit':
                            # falling off the end: predecessors that are not returns
                            preds = [p for p in r.pred if p.id in reach and p.kind != 'return' and
                                     not (fn.get('_expanded') and any('ec' in A.text(a) and lab is True for a, lab, e in g.guards(p)))]
                            if preds: bad = preds[0]; break
                            continue
                        # error return: some guard on the path tests ec
                        gs = [A.text(a) for a, lab, e in g.guards(r) if g.dominates(nd, e) or True]
                        if any('ec' in t for t in gs): continue
                        bad = r; break
                facts_ = {'function': fn['q'], 'event': A.text(c)[:80], 'line': c.get('l')}
                if bad is None: chk.ok('R03.5', site, facts_ if n % 25 == 1 else None)
                elif wrapper_only:
                    # every call of this helper was inlined into its caller, where the obligation is checked
                    chk.ok('R03.5', site + ' (helper; checked at its callers)', None)
                else:
                    chk.fail('R03.5', site, fn['file'], c.get('l'), '%s emitted in %s can reach the end of the function (line %s) without '
                             '`more_ = !cursor_mode_`: a pull cursor would not stop on this event' % (A.callee_name(c), fn['n'], bad.line), facts_, fn['q'])
    chk.require(n >= 90, 'R03.5: only %d event emissions found' % n)

def r03_6(chk, tier):
    chk.rule('R03.6', 'container-close agreement: end_array/end_object (end_document) of every parser stop at the marked level '
                      '(`level() == mark_level_` -> more_ = false), which read_to() and the staj iterators rely on', floor=10)
    n = 0
    for unit, cls in PARSERS:
        facts = F.load([unit], tier)
        for fn in U.one_per_inst(U.functions(facts, cls=cls)):
            if fn.get('body') is None: continue
            closes = [c for c in A.walk_no_lambda(fn['body']) if _is_visitor_event(c) and A.callee_name(c) in ('end_array', 'end_object')]
            if not closes: continue
            # typed-array / multi-dim helper paths emit through iterators; only the parser's own closers are in scope
            chk.analysed(fn)
            g = C.CFG(fn['body'])
            for i, c in enumerate(closes):
                n += 1
                nd = g.node_of(c)
                site = U.site(fn, 'close#%d=%s' % (i + 1, A.callee_name(c)))
                ok = False
                for m in g.rpo:
                    if m.kind == 'cond' and ('mark_level' in A.text(m.ast)) and nd is not None and (g.can_reach(nd, [m]) or g.can_reach(m, [nd])):
                        cmp_ = A.strip(m.ast)
                        if cmp_ is not None and cmp_.get('k') == 'BinaryOperator' and cmp_.get('op') == '==':
                            t_edges = [e for e in m.succ if e.kind == 'edge' and e.label is True]
                            if t_edges and any(x.kind == 'stmt' and U.assigned_member(x.ast) and U.assigned_member(x.ast)[0] == 'more_' and A.const(U.assigned_member(x.ast)[1]) == 0
                                               for x in guards_region(g, t_edges[0])):
                                ok = True
                # the same decision written as a conditional expression: more_ = (level == mark_level_) ? false : ...
                for m in g.rpo:
                    if ok or m.kind != 'stmt' or not isinstance(m.ast, dict) or nd is None: continue
                    am = U.assigned_member(m.ast)
                    if not am or am[0] != 'more_' or not (g.can_reach(nd, [m]) or g.can_reach(m, [nd])): continue
                    rhs = A.strip(am[1], casts=True)
                    if rhs is not None and rhs.get('k') == 'ConditionalOperator' and 'mark_level' in A.text(rhs.get('cond')):
                        cc = A.strip(rhs.get('cond'), casts=True)
                        if cc is not None and cc.get('k') == 'BinaryOperator' and cc.get('op') in ('==', '!='):
                            arm = rhs.get('then') if cc['op'] == '==' else rhs.get('else')
                            if A.const(arm) == 0: ok = True
                facts_ = {'function': fn['q'], 'line': c.get('l')}
                # the test must see the level the container was opened at: no decrement of a level counter between the previous
                # event and the close, nor between the close and its mark-level test
                if ok and nd is not None:
                    ev_nodes = [g.node_of(e2) for e2 in A.walk_no_lambda(fn['body']) if _is_visitor_event(e2)]
                    ev_nodes = [x for x in ev_nodes if x is not None and x is not nd]
                    marks = [m for m in g.rpo if m.kind == 'cond' and 'mark_level' in A.text(m.ast) and g.can_reach(nd, [m], avoid=ev_nodes)]
                    ctrs = set()
                    for m in marks:
                        for y in A.walk(m.ast):
                            if y.get('k') == 'MemberExpr' and y.get('n') != 'mark_level_' and 'level' in y.get('n', '') and y.get('dk') != 'CXXMethod': ctrs.add(y['n'])
                            if y.get('k') in A.CALLS and 'level' in (A.callee_name(y) or ''):
                                cal = facts.callee(fn, y)
                                if cal is not None and cal.get('body') is not None:
                                    for z in A.walk(cal['body']):
                                        if z.get('k') == 'MemberExpr' and 'level' in z.get('n', '') and z.get('n') != 'mark_level_': ctrs.add(z['n'])
                    decs = []
                    for x in g.rpo:
                        if x.kind in ('stmt', 'cond') and isinstance(x.ast, dict):
                            for y in A.walk_no_lambda(x.ast):
                                if y.get('k') == 'UnaryOperator' and y.get('op') == '--' and (A.strip(y.get('sub'), casts=True) or {}).get('n') in ctrs: decs.append(x)
                    early = None
                    for d in decs:
                        between = any(g.can_reach(s2, [d], avoid=ev_nodes + marks) for s2 in nd.succ) and any(g.can_reach(s2, marks, avoid=ev_nodes + [nd]) for s2 in d.succ)
                        before = g.dominates(d, nd) and any(g.can_reach(s2, [nd], avoid=ev_nodes) for s2 in d.succ)
                        if between or before: early = d; break
                    if early is not None:
                        chk.fail('R03.6', site, fn['file'], early.line, '%s in %s::%s: the level counter is decremented at line %s before the mark-level test of this close, so the cursor stops one level too deep (or not at all)' % (
                            A.callee_name(c), cls, fn['n'], early.line), facts_, fn['q'])
                        continue
                if ok: chk.ok('R03.6', site, facts_)
                else:
                    chk.fail('R03.6', site, fn['file'], c.get('l'), '%s in %s::%s has no mark-level stop (`if (level() == mark_level_) more_ = false`): '
                             'read_to() on a nested container runs past its end' % (A.callee_name(c), cls, fn['n']), facts_, fn['q'])
    chk.require(n >= 10, 'R03.6: only %d container closes found' % n)

def guards_region(g, edge):
    from .. import guards as G
    return G.region_of_edge(g, edge)

def r03_7(chk, tier):
    chk.rule('R03.7', 'span lifetime: a span returned by source_.read_span() is not used after a later read/peek/ignore/read_span on the same '
                      'source (which may refill the buffer the span points into)', floor=10)
    n = 0
    for unit, cls in PARSERS[1:]:
        facts = F.load([unit], tier)
        for fn in U.one_per_inst(U.functions(facts, cls=cls)):
            if fn.get('body') is None: continue
            spans = []
            for x in A.walk_no_lambda(fn['body']):
                if x.get('k') == 'VarDecl' and x.get('init') is not None:
                    ini = A.strip(x['init'], casts=True)
                    if ini is not None and ini.get('k') == 'CXXMemberCallExpr' and A.callee_name(ini) == 'read_span' and A.ref_name(ini.get('obj')) == 'source_':
                        spans.append(x)
            if not spans: continue
            chk.analysed(fn)
            g = C.CFG(fn['body'])
            for d in spans:
                n += 1
                site = U.site(fn, 'span %s' % d.get('n'))
                dn = None
                for nd in g.rpo:
                    if nd.kind == 'stmt' and isinstance(nd.ast, dict) and nd.ast.get('k') == 'DeclStmt' and any(v is d for v in nd.ast.get('decls') or []): dn = nd
                if dn is None: continue
                bad = None
                # source consumers reachable after the span is taken
                for m in g.rpo:
                    if m is dn or m.id not in g.reachable_from(dn) or not isinstance(m.ast, dict): continue
                    cons = [c for c in A.calls_in(m.ast) if c.get('k') == 'CXXMemberCallExpr' and A.ref_name(c.get('obj')) == 'source_' and
                            A.callee_name(c) in ('read', 'read_span', 'peek', 'ignore')]
                    if not cons: continue
                    # any use of the span variable reachable after that consumer?
                    after = g.reachable_from(m)
                    for u in g.rpo:
                        if u.id in after and u is not m and isinstance(u.ast, dict) and u.kind in ('stmt', 'return', 'cond'):
                            if any(y.get('k') == 'DeclRefExpr' and y.get('id') == d.get('id') for y in A.walk(u.ast)):
                                # uses on error paths that only test size are still uses; report
                                bad = (cons[0], u); break
                    if bad: break
                facts_ = {'function': fn['q'], 'span_line': d.get('l')}
                if bad is None: chk.ok('R03.7', site, facts_ if n % 5 == 1 else None)
                else:
                    chk.fail('R03.7', site, fn['file'], bad[1].line, 'span `%s` from source_.read_span() (line %s) is used at line %s after `%s` (line %s) read '
                             'from the same source: with a stream source the refill overwrites the bytes the span points to' % (
                                 d.get('n'), d.get('l'), bad[1].line, A.text(bad[0])[:40], bad[0].get('l')), facts_, fn['q'])
    chk.require(n >= 10, 'R03.7: only %d read_span results found' % n)

READERS = {'read': 1, 'sgetn': 1, 'read_buffer': 1}

def r03_8(chk, tier):
    from .. import guards as G
    chk.rule('R03.8', 'short-read agreement: the result of every read primitive (source_.read(buf, N), streambuf sgetn(p, N), read_buffer) is '
                      'compared with the very count that was requested (same constant or same expression), so a complete read is never '
                      'taken for a short one and vice versa', floor=60)
    n = 0
    scopes = [('core', ('jsoncons/source.hpp',))] + [(u, (c.replace('basic_', '') + '.hpp',)) for u, c in PARSERS[1:]]
    for unit, files in scopes:
        facts = F.load([unit], tier)
        if unit not in chk.units: chk.units.append(unit)
        seen = set()
        inst = set((f['file'], f['l']) for f in facts.functions if not f.get('dep'))
        for fn in facts.functions:
            if fn.get('body') is None or not fn['file'].endswith(files): continue
            if fn.get('dep') and (fn['file'], fn['l']) in inst: continue
            key = (fn['file'], fn['l'])
            if key in seen: continue
            seen.add(key)
            def is_reader(c):
                return c.get('k') == 'CXXMemberCallExpr' and A.callee_name(c) in READERS and len(c.get('args') or []) == 2 and \
                       (A.ref_name(c.get('obj')) in ('source_', 'sbuf_', 'source') or A.callee_name(c) == 'sgetn')
            rcalls = [c for c in A.walk_no_lambda(fn['body']) if is_reader(c)]
            if not rcalls: continue
            chk.analysed(fn)
            # definitions of variables that hold a read result (declaration or later assignment; through casts/copies)
            g = C.CFG(fn['body'])
            defs = {}     # var id -> [(cfg node, call)]
            for nd_ in g.rpo:
                if nd_.kind != 'stmt' or not isinstance(nd_.ast, dict): continue
                if nd_.ast.get('k') == 'DeclStmt':
                    for d in nd_.ast.get('decls') or []:
                        ini = A.strip(d.get('init'), casts=True) if d.get('init') is not None else None
                        if ini is not None and is_reader(ini): defs.setdefault(d['id'], []).append((nd_, ini))
                        elif ini is not None and ini.get('k') == 'DeclRefExpr' and ini.get('id') in defs:
                            defs.setdefault(d['id'], []).append((nd_, defs[ini.get('id')][-1][1]))
                else:
                    s0 = A.strip(nd_.ast)
                    if s0 is not None and s0.get('k') == 'BinaryOperator' and s0.get('op') == '=':
                        l0 = A.strip(s0.get('lhs')); r0 = A.strip(s0.get('rhs'), casts=True)
                        if l0 is not None and l0.get('k') == 'DeclRefExpr' and r0 is not None and is_reader(r0):
                            defs.setdefault(l0.get('id'), []).append((nd_, r0))
            def holder_call(vid, at_ast):
                nd0 = g.node_of(at_ast)
                cands = defs.get(vid) or []
                if nd0 is None or not cands: return cands[-1][1] if cands else None
                doms = [nd0] + g.dominators(nd0)
                for dnode in doms:
                    for dn, call_ in cands:
                        if dn is dnode: return call_
                return None
            holders = defs
            # comparisons
            for x in A.walk_no_lambda(fn['body']):
                if x.get('k') != 'BinaryOperator' or x.get('op') not in ('<', '!=', '==', '>=', '>', '<='): continue
                for a, b, flip in ((x.get('lhs'), x.get('rhs'), False), (x.get('rhs'), x.get('lhs'), True)):
                    sa = A.strip(a, casts=True)
                    call = None
                    if sa is not None and is_reader(sa): call = sa
                    elif sa is not None and sa.get('k') == 'DeclRefExpr' and sa.get('id') in holders: call = holder_call(sa.get('id'), x)
                    if call is None: continue
                    cnt = call['args'][1]
                    N = A.const(cnt); E = A.const(b)
                    ct = A.text(A.strip(cnt, casts=True)); et = A.text(A.strip(b, casts=True))
                    n += 1
                    site = U.site(fn, 'read(%s) cmp@%d' % (ct[:16], x.get('l', 0) - fn['l']))
                    ok = False
                    if N is not None and E is not None:
                        ok = (E == N) or (E == 0 and N == 1 and x.get('op') in ('==', '!=')) or (E == 0 and x.get('op') in ('==', '!=', '>'))
                    else:
                        ok = ct.replace(' ', '') == et.replace(' ', '') or E == 0
                    if ok: chk.ok('R03.8', site, {'function': fn['q'], 'requested': ct, 'compared_with': et} if n % 20 == 1 else None)
                    else:
                        chk.fail('R03.8', site, fn['file'], x.get('l'), 'the result of `%s` (requested `%s`) is compared with `%s`' % (A.text(call)[:50], ct, et), None, fn['q'])
                    break
    chk.require(n >= 60, 'R03.8: only %d read-result comparisons found' % n)

def r03_9(chk, tier):
    """Views of the current event die with it."""
    chk.rule('R03.9', 'event views: a local of a view type (basic_string_view, byte_string_view, span) that was read from cursor.current() is not '
                      'used after the cursor has been advanced (next / read_next / read_to on a cursor): the text of a key or string event '
                      'lives in the parser buffer and is overwritten by the next event (staj iterators, cursor-to-json builders, decode_traits)', floor=4)
    facts = F.load(['reflect'], tier)
    if 'reflect' not in chk.units: chk.units.append('reflect')
    ADV = ('next', 'read_next', 'read_to')
    n = 0; seen = set()
    for fn in facts.functions:
        if fn.get('body') is None or fn.get('dep') or fn['file'].startswith('drivers/'): continue
        views = []
        for d in A.walk_no_lambda(fn['body']):
            if d.get('k') == 'VarDecl' and d.get('init') is not None and d.get('t'):
                tn = fn['_types'][d['t'] - 1]
                if ('string_view' in tn or 'span<' in tn) and not tn.rstrip().endswith('&') and any(A.callee_name(c) == 'current' for c in A.calls_in(d['init'])):
                    views.append(d)
        # ... or a view-typed local that is *assigned* from cursor.current() later on (`key = cursor.current().get<string_view>(ec)`)
        assigned = []
        vlocals = {d['id']: d for d in A.walk_no_lambda(fn['body']) if d.get('k') == 'VarDecl' and d.get('t') and
                   ('string_view' in fn['_types'][d['t'] - 1] or 'span<' in fn['_types'][d['t'] - 1]) and not fn['_types'][d['t'] - 1].rstrip().endswith('&')}
        for x in A.walk_no_lambda(fn['body']):
            if x.get('k') == 'CXXOperatorCallExpr' and x.get('oop') == '=' and len(x.get('args') or []) == 2:
                t = A.strip(x['args'][0], casts=True)
                if t is not None and t.get('k') == 'DeclRefExpr' and t.get('id') in vlocals and any(A.callee_name(c) == 'current' for c in A.calls_in(x['args'][1])):
                    assigned.append((vlocals[t['id']], x))
        if not views and not assigned: continue
        key = (fn['file'], fn['l'])
        if key in seen: continue
        seen.add(key)
        chk.analysed(fn)
        g = C.CFG(fn['body'])
        adv = [nd for nd in g.rpo if nd.kind in ('stmt', 'cond', 'return') and isinstance(nd.ast, dict) and
               any(c.get('k') == 'CXXMemberCallExpr' and A.callee_name(c) in ADV and 'cursor' in (c.get('cq') or '') for c in A.calls_in(nd.ast))]
        for d, defx in [(d, d) for d in views] + assigned:
            n += 1
            site = U.site(fn, 'view %s%s' % (d.get('n'), '' if defx is d else ' (assigned@%d)' % (defx.get('l', 0) - fn['l'])))
            dn = g.node_of(defx)
            bad = None
            if dn is not None:
                for a in adv:
                    if a is dn or not g.can_reach(dn, [a]): continue
                    for nd in g.rpo:
                        if nd is dn or nd.kind not in ('stmt', 'cond', 'return') or not isinstance(nd.ast, dict): continue
                        if not any(y.get('k') == 'DeclRefExpr' and y.get('id') == d['id'] for y in A.walk_no_lambda(nd.ast)): continue
                        # a use strictly after the advance (in the advancing statement itself the view is evaluated first only if it is an argument)
                        if nd is a: continue
                        # ... without passing the declaration again (a new iteration reads a fresh view)
                        if any(s2 is nd or (s2 is not dn and g.can_reach(s2, [nd], avoid=[dn])) for s2 in a.succ): bad = (a, nd); break
                    if bad: break
            if bad is None: chk.ok('R03.9', site, {'function': fn['q'], 'line': d.get('l')})
            else:
                chk.fail('R03.9', site, fn['file'], bad[1].line or d.get('l'), '%s: the view `%s` read from cursor.current() at line %s is used at line %s after the cursor was '
                         'advanced at line %s: it points into the parser buffer of an event that is gone' % (fn['n'], d.get('n'), d.get('l'), bad[1].line, bad[0].line), None, fn['q'])
    chk.require(n >= 4, 'R03.9: only %d event views found' % n)

def r03_10(chk, facts):
    """The pull cursor reports what the push parser reports."""
    chk.rule('R03.10', 'cursor construction does not discard errors: in json_cursor.hpp, when the first read_next() leaves an error in a local '
                       'error_code, every path from the test of that local to the end of the constructor / initialiser hands it on '
                       '(`ec = local_ec`, a throw) - except under a test that the parser has consumed nothing (`parser_.enter()`, white space '
                       'only); a truncated top-level scalar (`"abc`, `12.`, `tru`) is an unexpected_eof for the reader and must be one for '
                       'the cursor', floor=4)
    n = 0; seen = set()
    for fn in sorted(facts.functions, key=lambda f: bool(f.get('dep'))):
        if fn.get('body') is None or not fn['file'].endswith('json_cursor.hpp') or (fn['file'], fn['l']) in seen: continue
        locs = [d for d in A.walk_no_lambda(fn['body']) if d.get('k') == 'VarDecl' and d.get('t') and 'error_code' in fn['_types'][d['t'] - 1]]
        if not locs: continue
        seen.add((fn['file'], fn['l']))
        g = C.CFG(fn['body'])
        for d in locs:
            tests = [nd for nd in g.rpo if nd.kind == 'cond' and isinstance(nd.ast, dict) and G.comparison(nd.ast) is None and
                     any(y.get('k') == 'DeclRefExpr' and y.get('id') == d['id'] for y in A.walk(nd.ast)) and
                     not any(y.get('k') in A.CALLS and A.callee_name(y) not in ('operator bool', '__builtin_expect') for y in A.walk(nd.ast))]
            for t in tests:
                te = [e for e in t.succ if e.kind == 'edge' and e.label is True]
                if not te: continue
                n += 1
                chk.analysed(fn)
                hand = []
                for nd in g.rpo:
                    if nd.kind == 'stmt' and isinstance(nd.ast, dict):
                        am = U.assigned_member(nd.ast)
                        x = A.strip(nd.ast, casts=True)
                        rhs_is_local = any(y.get('k') == 'DeclRefExpr' and y.get('id') == d['id'] for y in A.walk(x)) and \
                                       (x.get('k') in ('BinaryOperator', 'CXXOperatorCallExpr')) and (x.get('op') == '=' or x.get('oop') == '=')
                        if rhs_is_local and not (am and am[0] == d.get('n')): hand.append(nd)
                        if any(s2 is g.exit_throw for s2 in nd.succ) and any(y.get('k') == 'DeclRefExpr' and y.get('id') == d['id'] for y in A.walk(nd.ast)): hand.append(nd)
                    # "nothing consumed": true outcome of a condition that calls enter() on the parser
                    if nd.kind == 'edge' and nd.label is True and isinstance(nd.ast, dict) and any(A.callee_name(c) == 'enter' for c in A.calls_in(nd.ast)): hand.append(nd)
                site = U.site(fn, 'error in %s after the first read (line %s)' % (d.get('n'), t.line))
                leak = g.can_reach(te[0], [g.exit_return], avoid=hand)
                if not leak: chk.ok('R03.10', site, None)
                else:
                    chk.fail('R03.10', site, fn['file'], t.line, '%s: a path from `if (%s)` reaches the end without handing the error on (and without having established that nothing '
                             'was consumed): the cursor reports a truncated document as complete' % (fn['n'], d.get('n')), None, fn['q'])
    chk.require(n >= 4, 'R03.10: only %d tested local error codes found in json_cursor.hpp' % n)

def r03_11(chk, facts):
    """Every kind of source hands a long value out of a scratch buffer that holds that value and nothing else."""
    chk.rule('R03.11', 'scratch buffer of read_span: in every source whose read_span falls back to source_reader::read(*this, buffer, n) - which '
                       'appends - the buffer is emptied on every path to that call; otherwise the span starts with the previous long value and a '
                       'value read from an iterator range differs from the same bytes read from a stream or a contiguous buffer', floor=2)
    n = 0
    for fn in U.one_per_inst(sorted([f for f in facts.functions if f['n'] == 'read_span' and f['file'].endswith('source.hpp') and f.get('body') is not None], key=lambda f: bool(f.get('dep')))):
        # source_reader<...>::read(*this, buffer, n) (an unresolved call in the template body: recognised by its arguments)
        calls = [c for c in A.calls_in(fn['body'], no_lambda=True) if c.get('k') == 'CallExpr' and A.callee_name(c) == 'read' and len(c.get('args') or []) == 3 and
                 any(y.get('k') == 'CXXThisExpr' for y in A.walk(c['args'][0]))]
        if not calls: continue
        g = C.CFG(fn['body'])
        chk.analysed(fn)
        for c in calls:
            n += 1
            bname = A.ref_name(c['args'][1]) or next((y.get('n') for y in A.walk(c['args'][1]) if y.get('k') == 'DeclRefExpr' and y.get('dk') in ('ParmVar', 'Var')), '')
            clears = [nd for nd in g.rpo if nd.kind == 'stmt' and isinstance(nd.ast, dict) and any(A.callee_name(y) == 'clear' and any(z.get('k') == 'DeclRefExpr' and z.get('n') == bname for z in A.walk(y)) for y in A.calls_in(nd.ast))]
            cn = g.node_of(c)
            site = U.site(fn, 'append into %s' % bname)
            if cn is not None and not g.can_reach(g.entry, [cn], avoid=clears): chk.ok('R03.11', site, {'class': A.strip_targs(fn.get('cls') or '').split('::')[-1], 'line': c.get('l')})
            else:
                chk.fail('R03.11', site, fn['file'], c.get('l'), '%s::read_span appends to `%s` through source_reader::read without `%s.clear()` on the way: the span handed out starts with what an earlier long value left there' % (
                    A.strip_targs(fn.get('cls') or '').split('::')[-1], bname, bname), None, fn['q'])
    chk.require(n >= 2, 'R03.11: only %d scratch-buffer reads found in source.hpp' % n)

EVENT_GET = {'int64_value': ('long', 'long long', 'int64_t'), 'uint64_value': ('unsigned long', 'unsigned long long', 'uint64_t'), 'double_value': ('double',), 'bool_value': ('bool',)}

def r03_12(chk, facts):
    """The value taken out of an event has the type the event announces."""
    chk.rule('R03.12', 'event kind and getter agree: where staj_cursor.hpp builds values from events under a switch over the event type, the '
                       '`get<T>()` reached under the label of a numeric event reads the type of that event (uint64_value with uint64_t, '
                       'int64_value with int64_t, double_value with double, bool_value with bool) - in every loop that does so (array '
                       'elements, object members, single values), so that the iterators deliver what the decoder delivers', floor=8)
    en = dict((v, k) for k, v in U.enum_by_suffix(facts, '::staj_events')['values'])
    n = 0
    # the instantiations the staj iterators of the reflect driver produce (template arguments of get<T> are resolved there)
    rf = F.load(['reflect'], chk.tier)
    if 'reflect' not in chk.units: chk.units.append('reflect')
    for fn in U.one_per_inst([f for f in rf.functions if f['file'].endswith('staj_cursor.hpp') and f.get('body') is not None and not f.get('dep')]):
        for sw in A.walk_no_lambda(fn['body']):
            if sw.get('k') != 'SwitchStmt': continue
            cur = None
            for labels, st in P.PEval.switch_items(sw.get('body')):
                if labels: cur = [en.get(lo) for lo, hi in labels if lo != 'default']
                if st is None or not cur: continue
                numeric = [l for l in cur if l in EVENT_GET]
                if not numeric: continue
                for y in A.walk_no_lambda(st):
                    if y.get('k') == 'SwitchStmt': break
                    if y.get('k') == 'CXXMemberCallExpr' and A.callee_name(y) == 'get' and y.get('ta'):
                        t = y['ta'][0].replace('const ', '').strip()
                        for lab in numeric:
                            n += 1
                            site = U.site(fn, 'case %s get<%s>@%d' % (lab, t, y.get('l', 0) - fn['l']))
                            if t in EVENT_GET[lab] or t.split('::')[-1] in EVENT_GET[lab]: chk.ok('R03.12', site, None)
                            else:
                                chk.analysed(fn)
                                chk.fail('R03.12', site, fn['file'], y.get('l'), '%s reads the value of a %s event with get<%s>() (line %s): the number is reinterpreted (an unsigned value above 2^63 comes out negative), '
                                         'and this route disagrees with the decoder' % (fn['n'], lab, t, y.get('l')), None, fn['q'])
    chk.require(n >= 8, 'R03.12: only %d getters under numeric event labels found in staj_cursor.hpp' % n)

def r03_13(chk, facts):
    """A string that starts is scanned from the start label, whatever a string that was resumed earlier left behind."""
    chk.rule('R03.13', 'token start resets the resume label: every place in the JSON parser that enters the string state for a new string '
                       '(assigns state_ = parse_state::string and calls parse_string in the same block) assigns the resume label '
                       '`string_state_` its initial value before the call, like its sibling start sites; without it a string that '
                       'starts after another one was resumed in the middle of an escape is scanned from that escape state', floor=4)
    n = 0
    for fn in U.one_per_inst([f for f in U.functions(facts, cls='basic_json_parser') if f.get('body') is not None and not f.get('dep')]):
        for blk in A.walk_no_lambda(fn['body']):
            if blk.get('k') != 'CompoundStmt': continue
            kids = blk.get('c') or []
            for i, st in enumerate(kids):
                call = next((c for c in A.calls_in(st) if A.callee_name(c) == 'parse_string'), None) if st.get('k') != 'CompoundStmt' and not any(x.get('k') in ('IfStmt', 'SwitchStmt', 'ForStmt', 'WhileStmt') for x in A.walk(st)) else None
                if call is None: continue
                before = kids[:i]
                ams = [U.assigned_member(x) for b in before for x in ([A.strip(b)] if A.strip(b) is not None else []) if x.get('k') in ('BinaryOperator', 'CXXOperatorCallExpr')]
                ams = [a for a in ams if a]
                if not any(a[0] == 'state_' and (U.enum_const_name(a[1]) == 'string' or 'string' in A.text(a[1])) for a in ams): continue     # a resumption, not a start
                n += 1
                chk.analysed(fn)
                site = U.site(fn, 'string start@%d' % (call.get('l', 0) - fn['l']))
                if any(a[0] == 'string_state_' for a in ams): chk.ok('R03.13', site, {'line': call.get('l')})
                else:
                    chk.fail('R03.13', site, fn['file'], call.get('l'), '%s enters the string state at line %s without resetting string_state_: parse_string resumes at the label the previous resumed string '
                             'left (inside an escape), so the first characters of this string are read as the rest of that escape' % (fn['n'], call.get('l')), None, fn['q'])
    chk.require(n >= 4, 'R03.13: only %d string start sites found in basic_json_parser' % n)

def r03_14(chk, tier):
    """A cursor that is given a new source forgets the input position of the old one, in every reset overload."""
    chk.rule('R03.14', 'reset overloads of the cursors agree: the overloads of `reset` that receive a new source all call the same re-initialisation '
                       'of the parser (on this tree `parser_.reinitialize()`, which also drops the pointers into the old source\'s chunk), '
                       'the overloads without a source all call the same one; a sibling that keeps the old input pointers parses freed memory', floor=4)
    n = 0
    for unit in ('core', 'cbor', 'msgpack', 'ubjson', 'bson', 'csv'):
        facts = F.load([unit], tier)
        if unit not in chk.units: chk.units.append(unit)
        classes = {}
        for f in sorted(facts.functions, key=lambda f: bool(f.get('dep'))):
            if f['n'] != 'reset' or f.get('body') is None or 'cursor' not in A.strip_targs(f.get('cls') or '').split('::')[-1]: continue
            classes.setdefault(A.strip_targs(f['cls']), {}).setdefault((f['file'], f['l']), f)
        for cls, fns in sorted(classes.items()):
            groups = {}
            for f in fns.values():
                with_source = any('error_code' not in F.tname(f, p_['t']) for p_ in f['params'])
                calls = sorted(set(A.callee_name(c) for c in A.calls_in(f['body'], no_lambda=True)
                                   if A.callee_name(c) in ('reset', 'reinitialize', 'restart') and 'parser_' in A.text(c)))
                groups.setdefault(with_source, []).append((f, tuple(calls)))
            for ws, members in sorted(groups.items()):
                if len(members) < 2: continue
                counts = {}
                for f, cs in members: counts[cs] = counts.get(cs, 0) + 1
                ref = max(counts, key=lambda k_: counts[k_])
                for f, cs in members:
                    n += 1
                    chk.analysed(f)
                    site = U.site(f, 'reset(%s) parser call' % ('source' if ws else 'no source'))
                    if cs == ref: chk.ok('R03.14', site, {'class': cls.split('::')[-1], 'calls': list(cs)})
                    else:
                        chk.fail('R03.14', site, f['file'], f['l'], '%s::reset at line %s re-initialises the parser with %s, its sibling overloads (%s a new source) with %s' % (
                            cls.split('::')[-1], f['l'], list(cs) or 'nothing', 'with' if ws else 'without', list(ref)), None, f['q'])
    chk.require(n >= 4, 'R03.14: only %d reset overloads with siblings found in the cursors' % n)

def run(chk, tier, only_rule=None):
    chk.explanation = EXPLANATION
    chk.not_decided = NOT_DECIDED
    facts = F.load(['core'], tier)
    chk.units = facts.units
    r03_1_2(chk, facts)
    r03_5(chk, tier)
    r03_6(chk, tier)
    r03_7(chk, tier)
    r03_8(chk, tier)
    r03_9(chk, tier)
    r03_10(chk, facts)
    r03_11(chk, facts)
    r03_12(chk, facts)
    r03_13(chk, facts)
    r03_14(chk, tier)
    from . import c02
    c02.r02_8(chk, facts)      # the first-chunk examination must not recur at later chunk boundaries
    from . import c05
    c05.r05_6(chk, tier, units=['core'], floor=60)   # buffer-exhausted tests are what makes chunked delivery safe
