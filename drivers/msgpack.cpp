// instantiation driver: msgpack
#include <jsoncons/json.hpp>
#include <jsoncons_ext/msgpack/msgpack.hpp>
namespace jsoncons { namespace msgpack {
template class basic_msgpack_parser<jsoncons::bytes_source>;
template class basic_msgpack_parser<jsoncons::binary_stream_source>;
template class basic_msgpack_encoder<jsoncons::bytes_sink<std::vector<uint8_t>>>;
template class basic_msgpack_encoder<jsoncons::binary_stream_sink>;
template class basic_msgpack_reader<jsoncons::bytes_source>;
template class basic_msgpack_reader<jsoncons::binary_stream_source>;
}}
// cursors contain one member that does not compile when instantiated (observation N6); use them instead
void jcsa_use_msgpack(const std::vector<uint8_t>& v, std::istream& is)
{
    using namespace jsoncons;
    std::error_code ec;
    msgpack::msgpack_bytes_cursor c(v, ec);
    c.next(ec); (void)c.done(); (void)c.current();
    json_decoder<json> d;
    c.read_to(d, ec);
    msgpack::msgpack_stream_cursor c2(is, ec);
    c2.next(ec); c2.read_to(d, ec);
    json j = msgpack::decode_msgpack<json>(v);
    ojson oj = msgpack::decode_msgpack<ojson>(is);
    std::vector<uint8_t> out;
    msgpack::encode_msgpack(j, out);
    std::ostringstream os;
    msgpack::encode_msgpack(oj, os);
}
