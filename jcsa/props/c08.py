"""C08 Encoders emit only well-formed output - count bookkeeping, two-sided count checks, nesting guards."""
from .. import inline as I, frontend as F, ast as A, cfg as C, util as U, guards as G
from . import c10, c06

EXPLANATION = ('(R08.1) in the CBOR, MessagePack and UBJSON encoders every value-emitting visit_* reaches end_value() on every path that '
               'does not store an error or throw, so the per-container item count is exact; (R08.2) every visit_end_array/visit_end_object of a '
               'counted container compares the count with the declared length in both directions (too_few_items and too_many_items) before '
               'popping the frame; (R08.3) encoders without indefinite-length containers reject the length-less begin; (R10.2) every '
               'encoder open passes the nesting guard; (R06.*) the header ladders are exhaustive and non-truncating (shared with C06).')
NOT_DECIDED = ('that the bytes denote exactly the pushed data in general; validity of user-supplied nan_to_num text; JSON text separator placement '
               'beyond what C01 decides')

ENC = [('cbor', 'basic_cbor_encoder'), ('msgpack', 'basic_msgpack_encoder'), ('ubjson', 'basic_ubjson_encoder')]
VALUE_VISITS = ('visit_null', 'visit_bool', 'visit_string', 'visit_byte_string', 'visit_int64', 'visit_uint64', 'visit_double', 'visit_half')

def r08_4(chk, tier):
    """The buffered stream sinks hand on every byte they were given."""
    chk.rule('R08.4', 'buffered sinks: in the stream sinks a block copied into the buffer at the cursor (memcpy(p_, s, n)) is followed by the '
                      'advance of the cursor on every path before the buffered length is read or the buffer is written out; otherwise the bytes '
                      'just copied are not part of what is flushed and disappear from the output', floor=2)
    facts = F.load(['core'], tier)
    if 'core' not in chk.units: chk.units.append('core')
    n = 0; seen = set()
    for fn in sorted(facts.functions, key=lambda f: bool(f.get('dep'))):
        if fn.get('body') is None or not fn['file'].endswith('jsoncons/sink.hpp') or (fn['file'], fn['l']) in seen: continue
        copies = []
        for c in A.calls_in(fn['body'], no_lambda=True):
            if A.callee_name(c) in ('memcpy', 'memmove') and c.get('args'):
                d = A.strip(c['args'][0], casts=True)
                if d is not None and d.get('k') == 'MemberExpr': copies.append((c, d.get('n')))
        if not copies: continue
        seen.add((fn['file'], fn['l']))
        chk.analysed(fn)
        g = C.CFG(fn['body'])
        for c, cur in copies:
            n += 1
            mn = g.node_of(c)
            adv = []; reads = []
            for nd in g.rpo:
                if nd.kind not in ('stmt', 'cond', 'return') or not isinstance(nd.ast, dict) or nd is mn: continue
                x = A.strip(nd.ast, casts=True)
                tgt = None
                if x is not None and x.get('k') in ('BinaryOperator', 'CompoundAssignOperator') and x.get('op', '').endswith('=') and x.get('op') not in ('==', '!=', '<=', '>='):
                    tgt = A.strip(x.get('lhs'), casts=True)
                if tgt is not None and tgt.get('k') == 'MemberExpr' and tgt.get('n') == cur: adv.append(nd); continue
                if any(A.callee_name(y) in ('buffer_length', 'write', 'flush') for y in A.calls_in(nd.ast)) or \
                   any(y.get('k') == 'MemberExpr' and y.get('n') == cur for y in A.walk_no_lambda(nd.ast)): reads.append(nd)
            site = U.site(fn, 'copy at line %s' % c.get('l'))
            bad = [r for r in reads if mn is not None and g.can_reach(mn, [r], avoid=adv) and r is not mn]
            leak = mn is not None and g.can_reach(mn, [g.exit_return], avoid=adv)
            if not bad and not leak: chk.ok('R08.4', site, {'function': fn['q'], 'cursor': cur})
            elif bad:
                chk.fail('R08.4', site, fn['file'], bad[0].line or c.get('l'), '%s copies into the buffer at %s (line %s) and reads the buffered length / writes the buffer at line %s '
                         'before %s is advanced: the copied bytes are not flushed' % (fn['n'], cur, c.get('l'), bad[0].line, cur), None, fn['q'])
            else:
                chk.fail('R08.4', site, fn['file'], c.get('l'), '%s copies into the buffer at %s (line %s) and returns without advancing %s' % (fn['n'], cur, c.get('l'), cur), None, fn['q'])
    chk.require(n >= 2, 'R08.4: only %d buffer copies found in sink.hpp' % n)

RESULT_TYPES = ('write_result', 'read_result', 'expected<', 'conversion_result', 'to_number_result', 'from_chars_result')

def r08_5(chk, tier, units=('core', 'reflect')):
    """An outcome that is asked for is looked at."""
    chk.rule('R08.5', 'outcome discipline of the dump/encode routes: a local that receives the outcome object of a call (write_result, expected<...>, '
                      'conversion_result, ...) in basic_json.hpp, encode_json.hpp or the reflect traits is read afterwards (tested, returned or '
                      'passed on); an outcome stored and never read means an error reported by a nested value is dropped and the caller goes '
                      'on writing - the output then claims success with a value missing', floor=20)
    n = 0
    for unit in units:
        facts = F.load([unit], tier)
        if unit not in chk.units: chk.units.append(unit)
        seen = set()
        for fn in facts.functions:
            if fn.get('body') is None or fn.get('dep') or (fn['file'], fn['l']) in seen: continue
            if not (fn['file'].endswith(('basic_json.hpp', 'encode_json.hpp', 'decode_json.hpp')) or '/reflect/' in fn['file'] or fn['file'].startswith('drivers/reflect.cpp')): continue
            decls = [d for d in A.walk_no_lambda(fn['body']) if d.get('k') == 'VarDecl' and d.get('init') is not None and any(w in F.tname(fn, d.get('t')) for w in RESULT_TYPES)
                     and any(A.is_call(y) for y in A.walk(d['init']))]
            if not decls: continue
            seen.add((fn['file'], fn['l']))
            refs = {}
            for y in A.walk_no_lambda(fn['body']):
                if y.get('k') == 'DeclRefExpr': refs[y.get('id')] = refs.get(y.get('id'), 0) + 1
            for d in decls:
                n += 1
                site = U.site(fn, 'outcome %s@%d' % (d.get('n'), d.get('l', 0) - fn['l']))
                if refs.get(d['id'], 0) >= 1:
                    chk.ok('R08.5', site, {'function': fn['q'], 'line': d.get('l')} if n % 20 == 1 else None)
                else:
                    chk.analysed(fn)
                    call = next((y for y in A.walk(d['init']) if A.is_call(y) and A.callee_name(y)), None)
                    chk.fail('R08.5', site, fn['file'], d.get('l'), '%s stores the outcome of %s() in `%s` (line %s) and never reads it: a failure of that call goes unnoticed and the function carries on' % (
                        fn['n'], A.callee_name(call) if call else '?', d.get('n'), d.get('l')), None, fn['q'])
    chk.require(n >= 20, 'R08.5: only %d outcome locals found' % n)

RESET_NAMES = ('reset', 'reinitialize')
RESET_UNITS = ('core', 'cbor', 'msgpack', 'ubjson', 'bson', 'csv')
_GROW = {'push_back', 'emplace_back', 'insert', 'append', 'emplace', 'push', 'try_emplace'}
_SHRINK = {'pop_back', 'pop', 'erase'}
_REINIT = {'clear', 'resize', 'assign', 'reserve', 'swap', 'flush'}

def _member_writes(fn):
    """{member of *this: set of kinds of write ('assign', 'step', 'grow', 'shrink')} in the body of fn."""
    def member(e):
        e2 = A.strip(e, casts=True)
        if e2 is not None and e2.get('k') == 'MemberExpr' and (A.strip(e2.get('base')) or {}).get('k') == 'CXXThisExpr': return e2.get('n')
        return None
    K = {}
    for x in A.walk_no_lambda(fn['body']):
        k = x.get('k'); m = None; kind = None
        if k in ('BinaryOperator', 'CompoundAssignOperator') and x.get('op', '').endswith('=') and x.get('op') not in ('==', '!=', '<=', '>='):
            m = member(x.get('lhs')); kind = 'assign' if x.get('op') == '=' else 'step'
        elif k == 'UnaryOperator' and x.get('op') in ('++', '--'):
            m = member(x.get('sub')); kind = 'step'
        elif k == 'CXXMemberCallExpr' and A.callee_name(x) in _GROW | _SHRINK | _REINIT:
            m = member(x.get('obj')); cn = A.callee_name(x)
            kind = 'grow' if cn in _GROW else ('shrink' if cn in _SHRINK else 'assign')
        elif k == 'CXXOperatorCallExpr' and x.get('oop') in ('=', '+=', '-=', '++', '--') and x.get('args'):
            m = member(x['args'][0]); kind = 'assign' if x.get('oop') == '=' else 'step'
        if m: K.setdefault(m, set()).add(kind)
    return K

def r08_6(chk, tier, units=RESET_UNITS, floor=30):
    """reset() empties everything that accumulates while a document is written or read."""
    chk.rule('R08.6', 'reset completeness: in every class with a parameterless reset(), a member that only accumulates outside the constructors and '
                      'reset - a container that is grown (push_back/emplace/insert/append) or a counter that is stepped (++/--/+=) and is never '
                      'assigned or cleared by the other member functions - is assigned or cleared by reset() or a member function it calls; '
                      'otherwise a reused encoder or parser carries entries of the previous document into the next one', floor=floor)
    n = 0
    for unit in units:
        facts = F.load([unit], tier)
        if unit not in chk.units: chk.units.append(unit)
        classes = {}
        for f in facts.functions:
            if f.get('body') is None or f.get('dep') or not f.get('cls') or not f['file'].startswith('include/'): continue
            classes.setdefault(A.strip_targs(f['cls']), []).append(f)
        for cls, fns in sorted(classes.items()):
            fns = U.one_per_inst(fns)
            # the parameterless reset(), and reinitialize() - what the cursors and readers call on the parser when they are given a new source
            resets = [f for f in fns if f['n'] in RESET_NAMES and not f['params']]
            if not resets: continue
            byname = {}
            for f in fns: byname.setdefault(f['n'], []).append(f)
            def closure(f, seen):
                w = set(_member_writes(f))
                for c in A.calls_in(f['body'], no_lambda=True):
                    if c.get('k') == 'CXXMemberCallExpr' and (A.strip(c.get('obj')) or {}).get('k') == 'CXXThisExpr':
                        for g_ in byname.get(A.callee_name(c), []):
                            if id(g_) not in seen: seen.add(id(g_)); w |= closure(g_, seen)
                return w
            kinds = {}; where = {}
            for f in fns:
                if f.get('fk') in ('CXXConstructor', 'CXXDestructor') or f['n'] in RESET_NAMES or f['n'].startswith('operator'): continue
                for m, ks in _member_writes(f).items():
                    kinds.setdefault(m, set()).update(ks); where.setdefault(m, f)
            short = cls.split('::')[-1]
            for rf in sorted(resets, key=lambda f: f['n']):
              restored = closure(rf, {id(rf)})
              chk.analysed(rf)
              for m in sorted(kinds):
                if 'assign' in kinds[m] or not ({'grow', 'step'} & kinds[m]): continue
                n += 1
                site = '%s %s %s() ~ %s' % (rf['file'], short, rf['n'], m)
                if m in restored: chk.ok('R08.6', site, {'class': short, 'member': m, 'accumulates_by': sorted(kinds[m])})
                else:
                    chk.fail('R08.6', site, rf['file'], rf['l'], '%s::%s() leaves `%s` as it is, while %s (and no member function other than the constructors) only ever %s it: '
                             'what the previous document put there is still in it when the object is used again' % (short, rf['n'], m, where[m]['n'], 'grows' if 'grow' in kinds[m] else 'steps'), None, rf['q'])
    chk.require(n >= floor, 'R08.6: only %d accumulating members found in classes with reset()' % n)

def run(chk, tier, only_rule=None):
    chk.explanation = EXPLANATION
    chk.not_decided = NOT_DECIDED
    chk.rule('R08.1', 'must-pass end_value(): every path of a value-emitting visit_* to the normal exit passes end_value() or an error store/throw', floor=20)
    chk.rule('R08.2', 'two-sided count check: visit_end_array/visit_end_object store too_few_items when count < length and too_many_items when count > length', floor=6)
    chk.rule('R08.3', 'length-less visit_begin_array/visit_begin_object of MessagePack (no indefinite containers) store *_length_required', floor=2)
    for unit, cls in ENC:
        facts = F.load([unit], tier)
        chk.units.append(unit)
        for fn in U.one_per_inst(U.functions(facts, cls=cls)):
            if fn.get('body') is None: continue
            if fn['n'] in VALUE_VISITS:
                chk.analysed(fn)
                g = C.CFG(fn['body'])
                ends = [nd for nd in g.rpo if nd.kind == 'stmt' and any(A.callee_name(c) == 'end_value' for c in A.calls_in(nd.ast))]
                # delegation to another visit_* (e.g. visit_string -> visit_byte_string) carries the obligation
                dele = [nd for nd in g.rpo if nd.kind in ('stmt', 'return') and isinstance(nd.ast, dict) and
                        any(A.callee_name(c) in VALUE_VISITS or A.callee_name(c) in ('write_bignum', 'write_decimal_value', 'write_hexfloat_value') for c in A.calls_in(nd.ast))]
                errs = [nd for nd in g.rpo if nd.kind == 'stmt' and U.assigned_member(nd.ast) and U.assigned_member(nd.ast)[0] == 'ec']
                avoid = ends + dele + errs
                seen = g.reachable_from(g.entry, avoid=avoid)
                leak = [p for p in g.exit_return.pred if p.id in seen]
                site = U.site(fn, 'nparams=%d' % len(fn['params']))
                if not leak: chk.ok('R08.1', site, {'function': fn['q'], 'end_value_calls': len(ends), 'delegations': len(dele)})
                else:
                    chk.fail('R08.1', site, fn['file'], leak[0].line or fn['l'], '%s::%s can return without end_value(): the item is not counted, so a definite-length container '
                             'fails with too_few_items or accepts a wrong declared length' % (cls, fn['n']), {'function': fn['q']}, fn['q'])
            if fn['n'] in ('visit_end_array', 'visit_end_object'):
                chk.analysed(fn)
                helper = lambda callee, call: not callee['n'].startswith('visit_') and callee['n'] != 'end_value'
                few = many = False
                # the test may have been moved into a helper (called as a statement or inside a condition): every body of the closure is searched
                for nd in (nd for b in I.closure_bodies(facts, fn, allow=helper) for nd in C.CFG(b).rpo):
                    if nd.kind != 'cond': continue
                    cmp_ = G.comparison(nd.ast)
                    if not cmp_: continue
                    op, l, r = cmp_
                    lt, rt = A.text(l), A.text(r)
                    if not (('count' in lt and 'length' in rt) or ('length' in lt and 'count' in rt)): continue
                    # exact operands: the count and the declared length themselves, no arithmetic on either side
                    if any((A.strip(z, casts=True) or {}).get('k') in ('BinaryOperator', 'UnaryOperator') for z in (l, r)): continue
                    if 'length' in lt: op = G.FLIP[op]
                    for lab in (True, False):
                        e = [x for x in nd.succ if x.label is lab]
                        if not e: continue
                        eff = op if lab else G.NEG[op]
                        blk = G.block_after(e[0])
                        if any(x.kind == 'stmt' and G.assigns_enumerator(x.ast, {'ec'}, 'too_few_items') for x in blk) and eff in ('<',): few = True
                        if any(x.kind == 'stmt' and G.assigns_enumerator(x.ast, {'ec'}, 'too_many_items') for x in blk) and eff in ('>',): many = True
                        if any(x.kind == 'stmt' and G.assigns_enumerator(x.ast, {'ec'}, 'too_few_items') for x in blk) and eff in ('!=',): few = many = True
                site = U.site(fn, 'count check')
                if few and many: chk.ok('R08.2', site, {'function': fn['q']})
                else:
                    chk.fail('R08.2', site, fn['file'], fn['l'], '%s::%s checks the item count only %s the declared length' % (
                        cls, fn['n'], 'below' if few else ('above' if many else 'never against')), {'too_few': few, 'too_many': many}, fn['q'])
            if unit == 'msgpack' and fn['n'] in ('visit_begin_array', 'visit_begin_object') and len(fn['params']) == 3:
                chk.analysed(fn)
                stores = [x for x in A.walk_no_lambda(fn['body']) if x.get('k') == 'DeclRefExpr' and x.get('dk') == 'EnumConstant' and x.get('n', '').endswith('_length_required')]
                site = U.site(fn, 'length required')
                if stores: chk.ok('R08.3', site, {'function': fn['q'], 'error': stores[0].get('n')})
                else: chk.fail('R08.3', site, fn['file'], fn['l'], 'length-less %s does not store *_length_required' % fn['n'], None, fn['q'])
    c10.r10_2(chk, tier)
    # the JSON encoders' string literals are well-formed only if every control character is escaped (R01.1); the CBOR stringref
    # indices the encoder assigns denote the pushed strings only if its eligibility test is the specification's (R06.3)
    from . import c01
    c01.r01_1(chk, F.load(['core'], tier))
    if 'core' not in chk.units: chk.units.append('core')
    c06.r06_3(chk, tier)
    c06.r06_5(chk, tier)
    c06.r06_6(chk, tier)
    r08_4(chk, tier)
    r08_5(chk, tier)
    r08_6(chk, tier)
    # the JSON encoders copy a string tagged noesc without looking at it: what they emit is well-formed only if the parser gives that tag
    # to strings without escapes and to no other (R01.9)
    from . import c01
    c01.r01_9(chk, F.load(['core'], tier))
    c06.ladders(chk, tier)      # a header that announces another width/family than the bytes that follow is not well-formed
