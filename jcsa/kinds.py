"""E4: tagged-union kind-set dataflow for basic_json.

Forward dataflow over the structural CFG of one member function.  The abstract state maps each tracked
basic_json object (`*this`, parameters and locals of basic_json type) to the set of json_storage_kind values
it may hold.  Edges refine the sets: `x.storage_kind() == K`, `switch (x.storage_kind())` labels, and the
predicates is_primitive_storage/is_trivial_storage/is_string_storage and the is_*() accessors, whose truth
tables over the enumerator values are computed from their own bodies (partial evaluation), not hard-coded."""
from . import ast as A, cfg as C, peval as P, util as U

class KindModel:
    def __init__(self, facts, chk):
        self.facts = facts
        en = U.enum_by_suffix(facts, '::json_storage_kind')
        self.kinds = {v: n for n, v in en['values']}
        self.ALL = frozenset(self.kinds)
        self.byname = {n: v for n, v in en['values']}
        self.pred_tables = {}
        self.storage_kind_of = self._storage_structs(chk)
        self._free_pred_cache = {}
        self._member_pred_cache = {}

    def _storage_structs(self, chk):
        """storage struct simple name -> kind value, read from the constructors' storage_kind_ initialiser."""
        out = {}
        for fn in self.facts.functions:
            if fn.get('fk') != 'CXXConstructor' or fn.get('dep'): continue
            cls = A.strip_targs(fn.get('cls') or '')
            simple = cls.rsplit('::', 1)[-1]
            if not simple.endswith('_storage'): continue
            for ini in fn.get('inits') or []:
                if ini.get('m') == 'storage_kind_':
                    v = A.const(ini.get('init'))
                    if v is None:
                        for x in A.walk(ini.get('init')):
                            if A.const(x) is not None: v = A.const(x); break
                    if v is not None:
                        out.setdefault(simple, set()).add(v)
        chk.require(len(out) >= 12, 'E4: only %d storage structs with a storage_kind_ initialiser found' % len(out))
        return out

    # ---- predicate truth tables ------------------------------------------------------
    def free_pred(self, callee):
        """Truth table {kind value: True/False/None} of a free predicate taking a json_storage_kind."""
        key = callee['q']
        if key in self._free_pred_cache: return self._free_pred_cache[key]
        tab = {}
        for k in self.ALL:
            pe = P.PEval(self.facts, callee, max_depth=1)
            try:
                pe.exec_body(callee, {callee['params'][0]['id']: k})
            except P.Stop:
                tab[k] = None; continue
            rets = [e for e in pe.effects if e.kind == 'return']
            vals = set(e.extra.get('value') for e in rets)
            tab[k] = bool(vals.pop()) if len(vals) == 1 and None not in vals else None
        self._free_pred_cache[key] = tab
        return tab

    def member_pred(self, callee):
        """Truth table of a const bool member predicate (is_array(), is_string(), ...) over the object's storage kind;
        None where the answer depends on more than the kind."""
        key = callee['q']
        if key in self._member_pred_cache: return self._member_pred_cache[key]
        tab = {}
        model = self
        for k in self.ALL:
            class PE(P.PEval):
                def ev(self2, e, env, depth=0):
                    if e is not None and e.get('k') == 'CXXMemberCallExpr' and A.callee_name(e) == 'storage_kind':
                        o = A.strip(e.get('obj'), casts=True)
                        if o is not None and o.get('k') == 'CXXThisExpr': return k
                    return P.PEval.ev(self2, e, env, depth)
            pe = PE(self.facts, callee, max_depth=1,
                    pure=lambda c, call: c['n'] in ('is_primitive_storage', 'is_trivial_storage', 'is_string_storage', 'is_number_tag'))
            try:
                pe.exec_body(callee, {})
            except P.Stop:
                tab[k] = None; continue
            rets = [e for e in pe.effects if e.kind == 'return']
            vals = set(e.extra.get('value') for e in rets)
            tab[k] = bool(vals.pop()) if len(vals) == 1 and None not in vals else None
        self._member_pred_cache[key] = tab
        return tab

def obj_key(e):
    """Tracked-object key of an expression denoting a basic_json object, or None."""
    s = A.strip(e, casts=True)
    if s is None: return None
    k = s.get('k')
    if k == 'CXXThisExpr': return 'this'
    if k == 'UnaryOperator' and s.get('op') == '*':
        t = A.strip(s.get('sub'), casts=True)
        if t is not None and t.get('k') == 'CXXThisExpr': return 'this'
        return None
    if k == 'DeclRefExpr' and s.get('dk') in ('ParmVar', 'Var'):
        return ('v', s.get('id'), s.get('n'))
    return None

class KindFlow:
    """Dataflow of one function."""
    NONKIND_METHODS = {'cast', 'storage_kind', 'tag', 'get_allocator', 'size', 'empty', 'is_null', 'type'}

    def __init__(self, model, fn, entry=None):
        self.m = model
        self.fn = fn
        self.g = C.CFG(fn['body'])
        self.state_in = {}
        self.entry_state = dict(entry or {})
        # kind snapshots: `const json_storage_kind kind = x.storage_kind();` - a local that is never modified and holds the kind x had
        # at that point; tests of the local refine its own set and, while x has not been changed since, x's
        self.snap = {}
        mut = A.mutated_ids(fn['body'])
        for d in A.walk_no_lambda(fn['body']):
            if d.get('k') == 'VarDecl' and d.get('init') is not None and d.get('id') not in mut:
                key = self.kind_call_obj(d['init'])
                if key is not None: self.snap[d['id']] = key
        self._run()

    # abstract state: dict key -> frozenset ; missing key = ALL
    def get(self, st, key):
        return st.get(key, self.m.ALL)

    def refine_cond(self, ast, label, st):
        """State after taking edge (ast, label) from state st; None if infeasible."""
        s = A.strip(ast)
        if s is None: return st
        k = s.get('k')
        # x.storage_kind() ==/!= K   (either side)
        if k == 'BinaryOperator' and s.get('op') in ('==', '!='):
            for a, b in ((s.get('lhs'), s.get('rhs')), (s.get('rhs'), s.get('lhs'))):
                key = self.kind_call_obj(a)
                kv = A.const(b)
                if key is not None and kv is not None and kv in self.m.ALL:
                    eq = (s['op'] == '==') == bool(label)
                    cur = self.get(st, key)
                    new = (cur & {kv}) if eq else (cur - {kv})
                    if not new: return None
                    st = dict(st); st[key] = frozenset(new); return self._propagate_eq(st, key)
                # x.storage_kind() == y.storage_kind()
                key2 = self.kind_call_obj(b)
                if key is not None and key2 is not None:
                    eq = (s['op'] == '==') == bool(label)
                    if eq:
                        inter = self.get(st, key) & self.get(st, key2)
                        if not inter: return None
                        st = dict(st); st[key] = frozenset(inter); st[key2] = frozenset(inter)
                        st['eq'] = st.get('eq', frozenset()) | {frozenset((key, key2))}
                        return st
                    return st
            return st
        if k in A.CALLS:
            callee = self.m.facts.callee(self.fn, s)
            name = A.callee_name(s)
            # free predicate over x.storage_kind()
            if k == 'CallExpr' and callee is not None and len(s.get('args') or []) == 1 and len(callee['params']) == 1:
                key = self.kind_call_obj(s['args'][0])
                if key is not None:
                    tab = self.m.free_pred(callee)
                    return self._apply_table(st, key, tab, label)
            # member predicate x.is_*()
            if k == 'CXXMemberCallExpr' and callee is not None and not (s.get('args') or []) and callee.get('const'):
                key = obj_key(s.get('obj'))
                if key is not None and 'bool' == F_tname(callee):
                    tab = self.m.member_pred(callee)
                    return self._apply_table(st, key, tab, label)
        return st

    def _apply_table(self, st, key, tab, label):
        cur = self.get(st, key)
        new = frozenset(k for k in cur if tab.get(k) is None or tab.get(k) == bool(label))
        if not new: return None
        st = dict(st); st[key] = new
        return self._propagate_eq(st, key)

    def _propagate_eq(self, st, key):
        """Objects known to have the same kind as `key` are narrowed with it."""
        for pair in st.get('eq', ()):
            if key in pair:
                for other in pair:
                    if other != key:
                        inter = self.get(st, other) & st[key]
                        if not inter: return None
                        st[other] = frozenset(inter)
        return st

    def _drop_eq(self, st, key):
        if 'eq' in st:
            st['eq'] = frozenset(p for p in st['eq'] if key not in p)
            if not st['eq']: del st['eq']

    def kind_call_obj(self, e):
        """If e is `x.storage_kind()` (possibly cast to an integer) return x's key."""
        s = A.strip(e, casts=True)
        if s is not None and s.get('k') == 'CXXMemberCallExpr' and A.callee_name(s) == 'storage_kind':
            return obj_key(s.get('obj'))
        if s is not None and s.get('k') == 'DeclRefExpr' and s.get('id') in getattr(self, 'snap', {}):
            return ('kv', s.get('id'))
        return None

    def refine_switch(self, node, label, st):
        key = self.kind_call_obj(node.ast)
        if key is None: return st
        cur = self.get(st, key)
        if label[0] == 'case':
            new = frozenset(k for k in cur if label[1] <= k <= label[2])
        else:
            covered = label[1]
            new = frozenset(k for k in cur if not any(lo <= k <= hi for lo, hi in covered))
        if not new: return None
        st = dict(st); st[key] = new
        return self._propagate_eq(st, key)

    def transfer_stmt(self, node, st):
        """Effects of a statement node on the kind sets (kind-changing calls)."""
        ast = node.ast
        if ast is None or not isinstance(ast, dict): return st
        changed = None
        if ast.get('k') == 'DeclStmt':
            for d in ast.get('decls') or []:
                if d.get('id') in self.snap:
                    xkey = self.snap[d['id']]
                    if changed is None: changed = dict(st)
                    changed[('kv', d['id'])] = self.get(st, xkey)
                    changed['eq'] = changed.get('eq', frozenset()) | {frozenset((('kv', d['id']), xkey))}
            if changed is not None: st = changed
        for x in A.walk_no_lambda(ast):
            k = x.get('k')
            if k == 'CXXMemberCallExpr':
                name = A.callee_name(x)
                key = obj_key(x.get('obj'))
                if key is None: continue
                if x.get('cconst') or name in self.NONKIND_METHODS: continue
                new = None
                if name == 'construct':
                    ta = x.get('ta') or []
                    if ta:
                        simple = A.strip_targs(ta[0]).rsplit('::', 1)[-1]
                        ks = self.m.storage_kind_of.get(simple)
                        if ks: new = frozenset(ks)
                elif name == 'destroy':
                    new = self.get(st, key)      # kind byte unchanged
                elif name == 'create_object_implicitly':
                    cur = self.get(st, key)
                    eo = self.m.byname.get('empty_object'); ob = self.m.byname.get('object')
                    new = frozenset((cur - {eo}) | ({ob} if eo in cur else set()))
                if new is None: new = self.m.ALL
                if changed is None: changed = dict(st)
                changed[key] = new
                if name != 'destroy': self._drop_eq(changed, key)
            elif k == 'CXXOperatorCallExpr' and x.get('oop') == '=':
                key = obj_key((x.get('args') or [None])[0])
                if key is not None:
                    if changed is None: changed = dict(st)
                    changed[key] = self.m.ALL
                    self._drop_eq(changed, key)
            elif k in ('CallExpr', 'CXXMemberCallExpr', 'CXXConstructExpr'):
                pass
            # whole-object memcpy into this / placement new: kind becomes unknown
            if k == 'CallExpr' and A.callee_name(x) in ('memcpy', '__builtin_memcpy'):
                a0 = (x.get('args') or [None])[0]
                key = None
                for y in A.walk(a0):
                    kk = obj_key(y)
                    if kk is not None: key = kk; break
                if key is not None:
                    if changed is None: changed = dict(st)
                    changed[key] = self.m.ALL
            if k == 'CallExpr':
                # passing a tracked object by non-const reference to a free function (swap etc.)
                for a in x.get('args') or []:
                    kk = obj_key(a)
                    if kk is not None and A.callee_name(x) in ('swap',):
                        if changed is None: changed = dict(st)
                        changed[kk] = self.m.ALL
        return changed if changed is not None else st

    def _join(self, a, b):
        if a is None: return b
        if b is None: return a
        out = {}
        eqs = a.get('eq', frozenset()) & b.get('eq', frozenset())
        if eqs: out['eq'] = eqs
        for k in set(a) | set(b):
            if k == 'eq': continue
            va = a.get(k, self.m.ALL); vb = b.get(k, self.m.ALL)
            u = va | vb
            if u != self.m.ALL: out[k] = u
        return out

    def _run(self):
        g = self.g
        self.state_in = {g.entry.id: dict(self.entry_state)}
        work = [g.entry]
        iters = 0
        while work:
            iters += 1
            if iters > 20000: break
            n = work.pop()
            st = self.state_in.get(n.id)
            if st is None: continue
            if n.kind in ('stmt', 'return'):
                out = self.transfer_stmt(n, st)
            else:
                out = st
            for s in n.succ:
                o = out
                if s.kind == 'edge':
                    if n.kind == 'cond':
                        # the condition expression itself may contain kind-changing calls (rare); apply then refine
                        o = self.refine_cond(n.ast, s.label, out)
                    elif n.kind == 'switch':
                        o = self.refine_switch(n, s.label, out)
                if o is None: continue
                old = self.state_in.get(s.id)
                new = self._join(old, o) if old is not None else o
                if old is None or new != old:
                    self.state_in[s.id] = new
                    work.append(s)

    def kinds_at(self, astnode, key):
        n = self.g.node_of(astnode)
        if n is None: return None
        st = self.state_in.get(n.id)
        if st is None: return frozenset()     # unreachable
        return self.get(st, key)

def F_tname(fn):
    return fn['_types'][fn['ret'] - 1] if fn.get('ret') else ''
