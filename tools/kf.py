#!/usr/bin/env python3
"""Development helper (never run by a check): print the violation keys of a property's last replay files,
to be reviewed by hand and copied into known_findings.json."""
import json, sys, glob
for p in sorted(glob.glob('/verif/replay/%s/*.json' % sys.argv[1])):
    r = json.load(open(p))
    print(json.dumps({'property': r['property'], 'key': '%s %s' % (r['rule'], r['site']), 'what': r['message'][:200]}))
