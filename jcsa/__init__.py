"""jcsa - jsoncons static analysis: repository-specific checkers over clang facts."""
