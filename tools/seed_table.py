#!/usr/bin/env python3
"""Writes the table of independently seeded changes (DESIGN.md section 6.1) from /verif/seeded/*/meta.json.
`seed_recheck.py` fills fired_rules/detected_now; the one-line descriptions and the before/after marker are kept here."""
import json, os, re, sys
V = os.path.dirname(os.path.dirname(os.path.abspath(__file__)))

# what the change is (one line), and whether the catching rule existed when the change was first run ("before") or was
# added / strengthened after the check had missed it ("after")
INFO = {
 'C01-a': ('json_options: `space_comma.data()` paired with `comma.size()` (separator view one character short)', 'after'),
 'C01-b': ('json_parser: suspend inside `\\\\uXXXX` stores `escape_u2` for label `escape_u1` (a chunk boundary drops a hex digit)', 'after'),
 'C02-a': ('json_parser number DFA: after `e` a suspend stores `exp2` for `exp1` (accepts `1e` + chunk)', 'before'),
 'C02-b': ('json_decoder: keyed `begin_array` push without `index_++` (last duplicate wins)', 'before'),
 'C03-a': ('json_parser: `more_ = !cursor_mode_` dropped after one `bool_value` (cursor does not stop)', 'after'),
 'C03-b': ('stream_source::read: short-read test compares with `length` instead of `length-len` (eof set on a complete stitched read)', 'after'),
 'C07-a': ('UTF-8 validator: second-byte window of lead 0xF4 widened to 0x90', 'before'),
 'C07-b': ('bson_parser: document size check `pos != length` weakened to `pos > length`', 'after'),
 'C09-a': ('basic_json::compare: uint64 row reads `cast<int64_storage>()`', 'before'),
 'C09-b': ('sorted_json_object: `stable_sort` replaced by `sort` before `unique` (which duplicate survives is unspecified)', 'before'),
 'C10-a': ('cbor_parser: nesting guard removed from one array-open helper', 'after'),
 'C10-b': ('binary readers: chunked `min(chunk_size, unread)` growth replaced by one `reserve/resize(unread)` from the declared length', 'after'),
 'C04-a': ('grisu3 `normalized_boundaries`: `significand_is_zero` compares with 0 instead of the hidden bit (shortest-digit output wrong at powers of two)', 'declined'),
 'C04-b': ('bigint `operator+=`: the wrap test of `d = word + carry` dropped (carry lost when a word is all ones)', 'after'),
 'C05-a': ('json_parser: `cur >= local_input_end` weakened to `>` before a `\\\\u` surrogate read (one character past the chunk)', 'after'),
 'C05-b': ('cbor_parser: stringref index test `val >= size()` weakened to `>` (`at()` throws through the error_code API)', 'after'),
 'C06-a': ('cbor_encoder::write_string: stringref eligibility uses `stringref_map_.size()` instead of the shared index counter', 'before'),
 'C06-b': ('ubjson_encoder::put_length: `I` (int16) marker chosen up to UINT16_MAX', 'before'),
 'C08-a': ('cbor_encoder::write_string: stringref eligibility `>=` became `>` on the text path', 'after'),
 'C08-b': ('`is_control_character`: `c <= 0x1F` became `c < 0x1F` (U+001F written raw)', 'after'),
 'C11-a': ('if/then/else validator: annotations of `if` merged before the test that `if` passed', 'after'),
 'C11-b': ('object_schema_validator: hand-back of evaluated names decided by the widened local context', 'after'),
 'C12-a': ('JSONPath slice: backward step clamp `-(start+1)` changed to `-start` (index 0 selected again)', 'after'),
 'C12-b': ('one `json_replace` overload evaluates without `nodups`', 'after'),
 'C13-a': ('JMESPath compiler: `slic = slice{}` reset dropped after a two-component slice', 'after'),
 'C13-b': ('`lte_operator`: number guard `&&` became `||`', 'after'),
 'C14-a': ('jsonpointer `flatten_`: member name appended without `escape()`', 'after'),
 'C14-b': ('mutable `resolve()`: leading-zero rejection removed (only this overload)', 'after'),
 'C15-a': ('apply_patch `move`: `definite_path` evaluated before the `remove`', 'after'),
 'C15-b': ('jsonpointer::add: bounds rejection `>` became `>=` (rollback cannot re-insert a last element)', 'after'),
 'C16-a': ('apply_merge_patch_: non-object target member replaced by the raw patch value (nulls not stripped)', 'before'),
 'C16-b': ('from_diff: empty nested diff dropped (`{"a":1}` -> `{"a":{}}` lost)', 'after'),
 'C17-a': ('`JSONCONS_MEMBER_NAME_COUNT_LAST`: `<` became `<=` (one optional member counted as mandatory in the streamed object size)', 'after'),
 'C17-b': ('encode_traits for size-less sequences: length-less `begin_array` (MessagePack route fails)', 'after'),
 'C18-a': ('csv_parser state `between_values`: `case \'\\r\'` dropped (a record ending in CR/CRLF after a quoted field is rejected)', 'after'),
 'C18-b': ('TOON tabular rows: `encode_primitive(..., \',\', ...)` instead of the delimiter in force', 'after'),
 'C19-a': ('basic_json assignment: `construct<null_storage>()` after `destroy()` removed', 'before'),
 'C19-b': ('`~operation_unwinder`: rolls back only when `state == abort` (not after an exception)', 'after'),
 'C20-a': ('property_names_validator: `mutable Json key_` scratch member', 'before'),
 'C20-b': ('JMESPath `to_number`: function-local `static std::string s` scratch', 'after'),
 'C01-3a': ('write_number `dtoa_general`: the Grisu fallback is called with the absolute value `u` instead of `v` (sign lost for ~0.7% of negative doubles)', 'after'),
 'C01-3b': ('pretty printer `noesc` fast path advances `column_` by code points, the escaping path by code units (line breaks depend on how the value was built)', 'after'),
 'C02-3a': ('json_decoder::visit_begin_array: keyed push with index 0 instead of `index_++`', 'before'),
 'C02-3b': ('`is_legal_utf8`: the 0xF4 second-byte row dropped', 'before'),
 'C03-3a': ('stream_source::read: short-read test against `length` instead of `length-len`', 'before'),
 'C03-3b': ('csv_parser: `--level_` moved before the close event and its mark-level test in one sub-field closer', 'after'),
 'C04-3a': ('bigint `operator>>=`: `this_view = get_storage_view()` dropped after the shrinking resize', 'after'),
 'C04-3b': ('grisu3 `normalized_boundaries`: lower boundary `(v.f << 2) - 2` instead of `- 1` at powers of two', 'declined'),
 'C05-3a': ('csv m_columns_filter: `++level2_` moved out of the `name_index_ < column_names_.size()` guard (end_array indexes past the cache)', 'after'),
 'C05-3b': ('date-time validator accepts month 00, which reaches `days_in_month()`\'s `__builtin_unreachable()`', 'before'),
 'C06-3a': ('cbor_encoder::write_string: stringref eligibility by `stringref_map_.size()`', 'before'),
 'C06-3b': ('msgpack ext16 written as marker, type, length instead of marker, length, type', 'before'),
 'C07-3a': ('bson_parser: Timestamp (0x11) read and emitted as int64', 'before'),
 'C07-3b': ('ubjson_parser::end_object: `--nesting_depth_` dropped', 'after'),
 'C08-3a': ('cbor_encoder::visit_byte_string: stringref eligibility by `bytestringref_map_.size()`', 'before'),
 'C08-3b': ('msgpack `write_timestamp`: timestamp-32 chosen by `nanoseconds == 0` alone (seconds >= 2^32 truncated)', 'after'),
 'C09-3a': ('order_preserving object `insert(first,last)`: `bloom_set` dropped after the unchecked append (duplicate keys inside the range)', 'after'),
 'C09-3b': ('sorted_json_object::insert(first,last): `stable_sort` replaced by `sort` before `unique`', 'before'),
 'C10-3a': ('ordered_json_object::flatten_and_destroy: `case object:` label dropped (recursive destruction of nested objects)', 'before'),
 'C10-3b': ('source_reader::read: `n = unread` instead of one chunk when nothing is buffered', 'before'),
 'C11-3a': ('make_contains_validator: default minContains/maxContains objects no longer built', 'after'),
 'C11-3b': ('object_schema_validator: hand-back decided by the widened local context', 'before'),
 'C12-3a': ('json_location parser: escape `\\\'` pushes `"`', 'after'),
 'C12-3b': ('one `json_replace` overload evaluates without `nodups`', 'before'),
 'C13-3a': ('JMESPath `slice::get_start`: negative rebased start clamped to 0', 'after'),
 'C13-3b': ('`max_by`: `key1 = key2` dropped (running maximum never updated)', 'after'),
 'C14-3a': ('jsonpointer::remove: index parsed into `std::ptrdiff_t` ("-0" removes element 0)', 'after'),
 'C14-3b': ('`flatten_`: member name appended without `escape()`', 'before'),
 'C15-3a': ('apply_patch `move`: `definite_path` hoisted above the `remove`', 'before'),
 'C15-3b': ('`add_if_absent`: leading-zero rejection dropped in this sibling only (undo `remove` then fails and rollback stops)', 'after'),
 'C16-3a': ('from_diff: nested diff emitted only when not `empty()`', 'before'),
 'C16-3b': ('apply_merge_patch_: `Json item` hoisted out of the loop (absent branch reuses the previous member\'s value)', 'after'),
 'C17-3a': ('staj_cursor `to_json_container`: double elements of arrays built without the event tag', 'after'),
 'C17-3b': ('`JSONCONS_MEMBER_COUNT_LAST`: `<` became `<=`', 'before'),
 'C18-3a': ('csv_parser `unquoted_string`: `subfield_delimiter_ != char_type()` guard dropped on one site', 'after'),
 'C18-3b': ('TOON `encode_array_content`: inner array header without the delimiter marker', 'after'),
 'C19-3a': ('jsonpath `create_path_node`: `emplace_back(temp.release())`', 'after'),
 'C19-3b': ('heap_string destroy: deallocation size without `*sizeof(char_type)` (wrong for wchar_t)', 'before'),
 'C20-3a': ('JSONPath `tokenize()`: one-entry regex cache in function-local statics', 'before'),
 'C20-3b': ('`min_contains_keyword` gains a `count_` member set from the const `do_validate` through a unique_ptr', 'before'),
 'C01-4a': ('parser: `escape_tag_ = noesc` hoisted into `parse_string` (re-entered after every escape / chunk boundary)', 'after'),
 'C01-4b': ('`escape_string` return count skips UTF-8 continuation bytes (column accounting differs from the noesc route)', 'after'),
 'C02-4a': ('json_decoder: keyed array pushed with arrival index 0 instead of `index_++`', 'before'),
 'C02-4b': ('source adaptor: `bof_` cleared only when a byte order mark was skipped', 'after'),
 'C03-4a': ('staj_object_iterator: key taken as a view before `cursor.next()`', 'after'),
 'C03-4b': ('CSV parser: `--level_` before the mark-level test in one of five sibling closes', 'before'),
 'C04-4a': ('bigint `operator>>=`: stale storage view after resize', 'before'),
 'C04-4b': ('grisu3 `normalized_boundaries`: `significand_is_zero` test rewritten wrongly', 'declined'),
 'C05-4a': ('bigint storage `resize`: length assigned before `reserve()`', 'after'),
 'C05-4b': ('CSV column cache index used without the `< column_names_.size()` guard', 'before'),
 'C06-4a': ('MessagePack timestamp64 decode: seconds mask 32 bits instead of 34', 'after'),
 'C06-4b': ('binary_stream_sink::append: block copied into the buffer, cursor not advanced before the flush', 'after'),
 'C07-4a': ('decimal128_to_chars: exponent shift 17 instead of 15 in the large-significand form', 'after'),
 'C07-4b': ('CBOR read_item: final `other_tags_[item_tag] = false` removed', 'after'),
 'C08-4a': ('MessagePack write_timestamp: timestamp64 payload written as uint32', 'before'),
 'C08-4b': ('json_visitor typed array of int16: elements sent as `uint64_value`', 'after'),
 'C09-4a': ('sorted_json_object::insert(range): `std::stable_sort` -> `std::sort`', 'before'),
 'C09-4b': ('`uninitialized_copy_a`: byte string copied with ext tag 0', 'after'),
 'C10-4a': ('ordered object `flatten_and_destroy`: `for (auto kv : data_)` (deep copies, recursive destruction)', 'after'),
 'C10-4b': ('CBOR: `--nesting_depth_` moved from `end_classical_array_storage` to the multi-dim close', 'after'),
 'C11-4a': ('eval_context(parent, index, flags): `flags_(parent.flags_ | flags)`', 'after'),
 'C11-4b': ('additionalProperties: annotation test asks the per-property child context', 'after'),
 'C12-4a': ('jsonpath compile: a selector constructed without `selector_id++`', 'before'),
 'C12-4b': ('path_generator::generate: option masks of the two overloads differ (written against the tree before F44 was repaired; kept as self-test variant `c12-revert-f44-one-overload`)', 'after'),
 'C13-4a': ('sort_by: `std::stable_sort` -> `std::sort`', 'after'),
 'C13-4b': ('UTF-8 -> UTF-32 convert: legality bound `max_bmp` instead of `max_legal_utf32`', 'after'),
 'C14-4a': ('ordered object find: `memcmp(k.data(), key.data(), key_length)` (element count as byte count, wrong for wchar_t)', 'after'),
 'C14-4b': ('`add_if_absent(root, string, value, ec)` forwards to `add`', 'after'),
 'C15-4a': ('`jsonpatch_errc` renumbered: `invalid_patch` == 0', 'after'),
 'C15-4b': ('move: undo entry of the removal logged only after the insertion', 'after'),
 'C16-4a': ('short_string_storage copy: `memcpy` length without `sizeof(char_type)`', 'after'),
 'C16-4b': ('sorted object `Comp` rewritten with `std::lexicographical_compare` (signed char order, the sort uses char_traits)', 'after'),
 'C17-4a': ('`find_first_not_set` returns `indices.count()`', 'after'),
 'C17-4b': ('cursor-to-json `uint64_value` case drops the tag', 'before'),
 'C18-4a': ('csv parse_event(uint64_t): records `staj_events::int64_value`', 'after'),
 'C18-4b': ('TOON parse_delimited_values: backslash skip only before a quote', 'after'),
 'C19-4a': ('heap_string: `aligned_size` argument differs between create and destroy', 'after'),
 'C19-4b': ('ordered_json_object(val, alloc): allocator base initialised from `val.get_allocator()`', 'after'),
 'C20-4a': ('`dtoa_general` slow path: `static char buffer[100]`', 'after'),
 'C20-4b': ('tokenize_function: `mutable` pattern/regex cache', 'before'),
}

def main():
    rows = []
    d = os.path.join(V, 'seeded')
    for name in sorted(os.listdir(d)):
        mp = os.path.join(d, name, 'meta.json')
        if not os.path.exists(mp): continue
        m = json.load(open(mp))
        desc, when = INFO.get(name, ('(no description)', '?'))
        det = m.get('detected_now', m.get('detected'))
        rules = ', '.join(m.get('fired_rules') or []) or ('-' if not det else '?')
        suite = 'pass' if 'PASS' in (m.get('suite_with_patch') or '') else (m.get('suite_with_patch') or '?')[:20]
        demo = 'fails/passes' if str(m.get('demo_exit_with_patch')) not in ('0', '') and str(m.get('demo_exit_without_patch')) == '0' else '%s/%s' % (m.get('demo_exit_with_patch'), m.get('demo_exit_without_patch'))
        rows.append('| %s | %s | %s | %s | %s | %s | %s |' % (name, m.get('property'), desc, demo, suite, 'yes' if det else 'no', (rules + (' (%s)' % when if det else (' (%s)' % when if when == 'declined' else '')))))
    out = ['| seed | property | change | demo with/without | suite with patch | check fires | rule (before/after) |', '|---|---|---|---|---|---|---|'] + rows
    text = '\n'.join(out)
    p = os.path.join(V, 'DESIGN.md')
    s = open(p).read()
    a = '<!-- seed-table-begin -->'; b = '<!-- seed-table-end -->'
    if a in s and b in s:
        s = s[:s.index(a) + len(a)] + '\n' + text + '\n' + s[s.index(b):]
        open(p, 'w').write(s)
    print(text)
main()
