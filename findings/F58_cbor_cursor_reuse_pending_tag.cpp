#include <jsoncons/json.hpp>
#include <jsoncons_ext/cbor/cbor.hpp>
#include <iostream>
using namespace jsoncons;
int main() {
    std::vector<uint8_t> bad = {0xc0};            // tag 0 (date/time string), then end of input
    std::vector<uint8_t> good = {0x63,'a','b','c'};
    std::error_code ec;
    cbor::cbor_bytes_cursor cur(bad, ec);
    std::cout << "first: ec=" << ec.message() << "\n";
    ec.clear();
    cur.reset(good, ec);
    std::cout << "second: ec=" << ec.message() << " event=" << (int)cur.current().event_type() << " tag=" << cur.current().tag() << "\n";
    cbor::cbor_bytes_cursor fresh(good, ec);
    std::cout << "fresh: tag=" << fresh.current().tag() << "\n";
    return cur.current().tag() == fresh.current().tag() ? 0 : 1;
}
