// instantiation driver: csv
#include <jsoncons/json.hpp>
#include <jsoncons_ext/csv/csv.hpp>
namespace jsoncons { namespace csv {
template class basic_csv_encoder<char, jsoncons::string_sink<std::string>>;
template class basic_csv_encoder<char, jsoncons::stream_sink<char>>;
template class basic_csv_reader<char, jsoncons::string_source<char>>;
template class basic_csv_reader<char, jsoncons::stream_source<char>>;
}}
void jcsa_use_csv(const std::string& s, std::istream& is)
{
    using namespace jsoncons;
    std::error_code ec;
    csv::csv_options opt;
    csv::csv_string_cursor c(s, opt, ec);
    c.next(ec); (void)c.done(); (void)c.current();
    json_decoder<json> d;
    c.read_to(d, ec);
    csv::csv_stream_cursor c2(is, opt, ec);
    c2.next(ec);
    json j = csv::decode_csv<json>(s, opt);
    ojson oj = csv::decode_csv<ojson>(is, opt);
    std::string out;
    csv::encode_csv(j, out, opt);
    std::ostringstream os;
    csv::encode_csv(oj, os, opt);
    csv::csv_parser p(opt);
    p.update(s.data(), s.size());
    p.parse_some(d, ec);
    p.reinitialize(); p.restart();
}
