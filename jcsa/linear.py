"""Linear forms over named integer variables and interval boxes: just enough arithmetic to decide `e >= 0 for every point of a box`
for the clamp expressions of the slice loops (coefficients and bounds are added and compared; nothing is solved)."""
from . import ast as A

INF = float('inf')

def lin(e):
    """Linear form {var: coef, 1: const} of expression e, or None if e is not linear in plain variables."""
    s = A.strip(e, casts=True)
    if s is None: return None
    c = A.const(s)
    if c is not None: return {1: c}
    k = s.get('k')
    if k == 'DeclRefExpr': return {s.get('n'): 1}
    if k == 'MemberExpr' and A.ref_name(s): return {A.ref_name(s): 1}
    if k == 'UnaryOperator' and s.get('op') == '-':
        a = lin(s.get('sub'))
        return None if a is None else {v: -c for v, c in a.items()}
    if k == 'UnaryOperator' and s.get('op') == '+': return lin(s.get('sub'))
    if k == 'BinaryOperator' and s.get('op') in ('+', '-'):
        a, b = lin(s.get('lhs')), lin(s.get('rhs'))
        if a is None or b is None: return None
        out = dict(a)
        for v, c in b.items(): out[v] = out.get(v, 0) + (c if s['op'] == '+' else -c)
        return out
    if k == 'BinaryOperator' and s.get('op') == '*':
        a, b = lin(s.get('lhs')), lin(s.get('rhs'))
        if a is None or b is None: return None
        if set(a) <= {1}: return {v: c * a.get(1, 0) for v, c in b.items()}
        if set(b) <= {1}: return {v: c * b.get(1, 0) for v, c in a.items()}
        return None
    if k in A.CALLS and A.callee_name(s) == 'size' and s.get('obj') is not None:
        return {'size(%s)' % A.text(A.strip(s['obj'], casts=True)): 1}
    return None

def add(a, b, sb=1):
    out = dict(a)
    for v, c in b.items(): out[v] = out.get(v, 0) + sb * c
    return out

def minimum(form, box):
    """Minimum of the linear form over the box {var: (lo, hi)}; variables not in the box are unbounded."""
    m = form.get(1, 0)
    for v, c in form.items():
        if v == 1 or c == 0: continue
        lo, hi = box.get(v, (-INF, INF))
        b = lo if c > 0 else hi
        if b in (INF, -INF): return -INF
        m += c * b
    return m

def show(form):
    parts = []
    for v, c in sorted(form.items(), key=lambda kv: str(kv[0])):
        if v == 1 or c == 0: continue
        parts.append(('%+d*%s' % (c, v)) if abs(c) != 1 else ('%s%s' % ('+' if c > 0 else '-', v)))
    if form.get(1, 0) or not parts: parts.append('%+d' % form.get(1, 0))
    return ''.join(parts).lstrip('+')
