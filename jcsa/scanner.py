"""E10: character-scanner automata.

A *scanner* is a loop `for (i = 0; i < s.size() [&& ...];) { c = s[i]; switch (state) ... }` over one input view with a handful of
scalar locals.  This module extracts its transition relation from the syntax tree by exact evaluation of one loop iteration under an
abstract configuration:

  * the input is known only through the characters demanded so far (a lazily extended window of character-class representatives)
    and a flag saying whether the input ends after them; the index variable is kept relative to the window (`Rel(k)`), `s.size()` is
    symbolic (`SIZE`).  A test that the known characters cannot decide raises `NeedMore`, and the exploration then branches over the next
    character class and over "the input ends here";
  * scalar locals (state, flags, counters) hold concrete values; counters are *capped* (values above the cap are identified with the cap),
    which is exact as long as the scanner compares them only with constants below the cap - checked syntactically by `check_counter_uses`;
  * string-like locals are abstracted to empty / non-empty (push_back, append -> non-empty; empty() reads the flag).

Any construct outside this fragment raises `Undecided` (reported as analysis-broken, never guessed).  Nothing is executed: each step is
the evaluation of the loop body's tree under one abstract configuration; configurations are finite, so the reachable product of two
scanners (inclusion of the accepted languages) is decided by exhaustive exploration.
"""
from collections import deque
from . import ast as A
from .peval import PEval, wrap

MAXWIN = 8


class Undecided(Exception):
    pass


class NeedMore(Exception):
    pass


class Rel:
    """index = (unknown base) + k"""
    __slots__ = ('k',)
    def __init__(self, k): self.k = k
    def __repr__(self): return 'Rel(%d)' % self.k


class SizeV:
    """size of the input (base + number of characters left)"""
    def __repr__(self): return 'SIZE'
SIZE = SizeV()


class Left:
    """size - (base + k)"""
    __slots__ = ('k',)
    def __init__(self, k): self.k = k
    def __repr__(self): return 'Left(%d)' % self.k


class Str:
    """abstract string local: only emptiness is known"""
    __slots__ = ('nonempty',)
    def __init__(self, nonempty=False): self.nonempty = nonempty
    def __repr__(self): return 'Str(%s)' % ('ne' if self.nonempty else 'empty')


class Ctl(Exception):
    def __init__(self, kind, value=None):
        self.kind = kind; self.value = value


CMP = ('<', '>', '<=', '>=', '==', '!=')
FLIP = {'<': '>', '>': '<', '<=': '>=', '>=': '<=', '==': '==', '!=': '!='}


def cmp_int(op, a, b):
    return int({'<': a < b, '>': a > b, '<=': a <= b, '>=': a >= b, '==': a == b, '!=': a != b}[op])


def cmp_lower_bound(op, lo, b):
    """truth of (x op b) knowing only x >= lo; None when undecided"""
    if op == '<': return 0 if lo >= b else None
    if op == '<=': return 0 if lo > b else None
    if op == '>': return 1 if lo > b else None
    if op == '>=': return 1 if lo >= b else None
    if op == '==': return 0 if lo > b else None
    if op == '!=': return 1 if lo > b else None


def find_scanner_loop(fn):
    """The first ForStmt in fn whose condition compares a local index with X.size() and whose body switches over a local."""
    for x in A.walk_no_lambda(fn['body']):
        if x.get('k') != 'ForStmt': continue
        idx = inp = None
        for y in A.walk(x.get('cond')):
            if y.get('k') == 'BinaryOperator' and y.get('op') == '<':
                l = A.strip(y.get('lhs'), casts=True); r = A.strip(y.get('rhs'), casts=True)
                if l is not None and l.get('k') == 'DeclRefExpr' and r is not None and r.get('k') == 'CXXMemberCallExpr' and A.callee_name(r) == 'size':
                    o = A.strip(r.get('obj'), casts=True)
                    if o is not None and o.get('k') == 'DeclRefExpr':
                        idx = l.get('id'); inp = o.get('id')
        if idx is None: continue
        sw = [y for y in A.walk_no_lambda(x.get('body')) if y.get('k') == 'SwitchStmt']
        if not sw: continue
        st = A.strip(sw[0].get('cond'), casts=True)
        if st is None or st.get('k') != 'DeclRefExpr': continue
        return {'loop': x, 'index': idx, 'input': inp, 'state': st.get('id'), 'switch': sw[0]}
    return None


class Scanner:
    def __init__(self, fn, info, cap=1):
        self.fn = fn
        self.loop = info['loop']; self.idx = info['index']; self.inp = info['input']; self.state_id = info['state']
        self.cap = cap
        self.types = fn['_types']
        self.cache = {}
        self.names = {}
        self.init_env = {}
        self._collect_prefix()
        self.counters = self._counters()
        self.body_locals = set(d['id'] for x in A.walk_no_lambda(self.loop['body']) if x.get('k') == 'DeclStmt'
                               for d in x.get('decls') or [] if d.get('k') == 'VarDecl')
        self.steps = 0

    # ---- set-up ------------------------------------------------------------------------------------------------
    def tn(self, e):
        t = e.get('t')
        return self.types[t - 1] if t else ''

    def _collect_prefix(self):
        """Top-level DeclStmts before the loop in the same block give the initial values of the scalar locals."""
        blk = None
        for x in A.walk_no_lambda(self.fn['body']):
            if x.get('k') == 'CompoundStmt' and any(c is self.loop for c in x.get('c') or []): blk = x; break
        if blk is None: raise Undecided('loop is not a direct child of a block')
        self.block = blk
        env = {}
        for st in blk['c']:
            if st is self.loop: break
            if st.get('k') != 'DeclStmt': continue
            for d in st.get('decls') or []:
                if d.get('k') != 'VarDecl': continue
                self.names[d['id']] = d.get('n')
                tn = self.types[d['t'] - 1] if d.get('t') else ''
                init = d.get('init')
                if 'basic_string<' in tn or tn.endswith('string'):
                    s = A.strip(init, casts=True) if init is not None else None
                    if init is None or (s is not None and s.get('k') == 'CXXConstructExpr' and not (s.get('args') or [])):
                        env[d['id']] = Str(False)
                    continue
                if init is None: continue
                try:
                    v = self.ev(init, env, ((), True))
                except (Undecided, NeedMore):
                    continue
                if isinstance(v, int): env[d['id']] = v
        self.init_env = env
        init = self.loop.get('init')
        if init is not None and init.get('k') == 'DeclStmt':
            for d in init.get('decls') or []:
                self.names[d['id']] = d.get('n')

    def _counters(self):
        out = set()
        for x in A.walk_no_lambda(self.loop['body']):
            s = None
            if x.get('k') == 'UnaryOperator' and x.get('op') in ('++', '--'): s = A.strip(x.get('sub'), casts=True)
            if x.get('k') == 'CompoundAssignOperator': s = A.strip(x.get('lhs'), casts=True)
            if s is not None and s.get('k') == 'DeclRefExpr' and s.get('id') != self.idx: out.add(s.get('id'))
        return out

    def check_counter_uses(self, roots):
        """Capping counters at `cap` is exact when every comparison on them is `== c`, `!= c`, `> c`, `<= c` with 0 <= c < cap or
        `< c`, `>= c` with 0 < c <= cap.  Returns the offending comparisons (text, line)."""
        bad = []
        for root in roots:
            for x in A.walk_no_lambda(root):
                if x.get('k') != 'BinaryOperator' or x.get('op') not in CMP: continue
                for a, b, flip in ((x.get('lhs'), x.get('rhs'), False), (x.get('rhs'), x.get('lhs'), True)):
                    s = A.strip(a, casts=True)
                    if s is None or s.get('k') != 'DeclRefExpr' or s.get('id') not in self.counters: continue
                    c = A.const(b)
                    op = FLIP[x['op']] if flip else x['op']
                    exact = c is not None and ((op in ('==', '!=', '>', '<=') and 0 <= c < self.cap) or (op in ('<', '>=') and 0 < c <= self.cap))
                    if not exact: bad.append((A.text(x)[:80], x.get('l')))
        return bad

    def char_constants(self):
        """Constants the scanner compares input characters with (class boundaries of its alphabet)."""
        out = set()
        for x in A.walk_no_lambda(self.loop):
            if x.get('k') == 'BinaryOperator' and x.get('op') in CMP:
                for a in (x.get('lhs'), x.get('rhs')):
                    v = A.const(a)
                    if v is not None and 0 <= v < 256: out.add(v)
            if x.get('k') == 'CaseStmt':
                for v in (x.get('lo'), x.get('hi')):
                    if isinstance(v, int) and 0 <= v < 256: out.add(v)
        return out

    # ---- expressions -------------------------------------------------------------------------------------------
    def ev(self, e, env, win):
        if e is None: raise Undecided('missing expression')
        k = e.get('k')
        if 'ev' in e and k != 'DeclRefExpr': return e['ev']
        if k in ('IntegerLiteral', 'CharacterLiteral', 'CXXBoolLiteralExpr'): return e.get('v')
        if k in ('ParenExpr', 'CXXDefaultArgExpr', 'ExprWithCleanups', 'MaterializeTemporaryExpr', 'CXXBindTemporaryExpr'):
            return self.ev(e.get('sub'), env, win)
        if k == 'ImplicitCastExpr' or k in A.EXPLICIT_CASTS:
            v = self.ev(e.get('sub'), env, win)
            if not isinstance(v, int): return v
            if e.get('ck') == 'IntegralToBoolean': return 1 if v else 0
            return wrap(v, self.tn(e))
        if k == 'DeclRefExpr':
            if e.get('dk') == 'EnumConstant': return e.get('v')
            if e.get('id') in env: return env[e.get('id')]
            if 'ev' in e: return e['ev']
            raise Undecided('value of `%s` (line %s) is not known' % (e.get('n'), e.get('l')))
        if k == 'UnaryOperator':
            op = e.get('op')
            if op in ('++', '--'): return self.incdec(e, env, win)
            v = self.ev(e.get('sub'), env, win)
            if op == '!': return 0 if self.truth(v) else 1
            if not isinstance(v, int): raise Undecided('unary %s on a symbolic value (line %s)' % (op, e.get('l')))
            if op == '-': return wrap(-v, self.tn(e))
            if op == '+': return v
            if op == '~': return wrap(~v, self.tn(e))
            raise Undecided('unary operator %s (line %s)' % (op, e.get('l')))
        if k == 'BinaryOperator':
            op = e.get('op')
            if op == '=': return self.assign(e, env, win)
            if op == ',':
                self.ev(e.get('lhs'), env, win); return self.ev(e.get('rhs'), env, win)
            if op == '&&':
                return 1 if self.truth(self.ev(e.get('lhs'), env, win)) and self.truth(self.ev(e.get('rhs'), env, win)) else 0
            if op == '||':
                return 1 if self.truth(self.ev(e.get('lhs'), env, win)) or self.truth(self.ev(e.get('rhs'), env, win)) else 0
            a = self.ev(e.get('lhs'), env, win); b = self.ev(e.get('rhs'), env, win)
            return self.binop(op, a, b, e, win)
        if k == 'CompoundAssignOperator':
            op = e.get('op')[:-1]
            l = A.strip(e.get('lhs'), casts=True)
            if l is None or l.get('k') != 'DeclRefExpr': raise Undecided('compound assignment to a non-local (line %s)' % e.get('l'))
            a = self.ev(l, env, win); b = self.ev(e.get('rhs'), env, win)
            v = self.binop(op, a, b, e, win)
            self.store(l.get('id'), v, env)
            return v
        if k == 'ConditionalOperator':
            return self.ev(e.get('then') if self.truth(self.ev(e.get('cond'), env, win)) else e.get('else'), env, win)
        if k == 'CXXOperatorCallExpr' and e.get('oop') == '[]':
            args = e.get('args') or []
            o = A.strip(args[0], casts=True) if args else None
            if o is not None and o.get('k') == 'DeclRefExpr' and o.get('id') == self.inp:
                return self.read(self.ev(args[1], env, win), win, e)
            raise Undecided('subscript of something other than the input (line %s)' % e.get('l'))
        if k == 'CXXMemberCallExpr':
            name = A.callee_name(e)
            o = A.strip(e.get('obj'), casts=True)
            oid = o.get('id') if o is not None and o.get('k') == 'DeclRefExpr' else None
            if oid == self.inp and name in ('size', 'length'): return SIZE
            if oid is not None and isinstance(env.get(oid), Str):
                s = env[oid]
                if name == 'empty': return 0 if s.nonempty else 1
                if name in ('push_back', 'append'):
                    env[oid] = Str(True); return 0
                if name == 'clear':
                    env[oid] = Str(False); return 0
                raise Undecided('string operation %s on `%s` (line %s)' % (name, o.get('n'), e.get('l')))
            raise Undecided('call of %s (line %s)' % (name, e.get('l')))
        if k == 'CXXOperatorCallExpr' and e.get('oop') == '+=':
            args = e.get('args') or []
            o = A.strip(args[0], casts=True) if args else None
            if o is not None and o.get('k') == 'DeclRefExpr' and isinstance(env.get(o.get('id')), Str):
                env[o.get('id')] = Str(True); return 0
        raise Undecided('expression kind %s (line %s)' % (k, e.get('l')))

    @staticmethod
    def truth(v):
        if isinstance(v, int): return v != 0
        raise Undecided('truth value of a symbolic quantity %r' % (v,))

    def read(self, i, win, e):
        chars, ended = win
        if not isinstance(i, Rel): raise Undecided('input subscript is not index-relative (line %s)' % e.get('l'))
        if 0 <= i.k < len(chars): return chars[i.k]
        if i.k < 0: raise Undecided('input subscript before the current position (line %s)' % e.get('l'))
        if not ended: raise NeedMore()
        raise Undecided('the scanner reads input[index+%d] with only %d characters left (line %s)' % (i.k, len(chars), e.get('l')))

    def binop(self, op, a, b, e, win):
        ln = e.get('l')
        chars, ended = win
        if isinstance(a, int) and isinstance(b, int):
            if op in CMP: return cmp_int(op, a, b)
            try:
                r = {'+': a + b, '-': a - b, '*': a * b, '&': a & b, '|': a | b, '^': a ^ b}[op]
            except KeyError:
                raise Undecided('operator %s (line %s)' % (op, ln))
            return wrap(r, self.tn(e))
        if isinstance(a, Rel) and isinstance(b, int) and op in ('+', '-'): return Rel(a.k + b if op == '+' else a.k - b)
        if isinstance(a, int) and isinstance(b, Rel) and op == '+': return Rel(b.k + a)
        if isinstance(a, Rel) and isinstance(b, Rel):
            if op == '-': return a.k - b.k
            if op in CMP: return cmp_int(op, a.k, b.k)
        if isinstance(a, SizeV) and isinstance(b, SizeV) and op in CMP: return cmp_int(op, 0, 0)
        if isinstance(a, SizeV) and isinstance(b, Rel) and op in CMP: return self.binop(FLIP[op], b, a, e, win)
        if isinstance(a, Rel) and isinstance(b, SizeV) and op in CMP:
            # index k versus size: size - base >= len(chars), exactly len(chars) when ended
            if ended: return cmp_int(op, a.k, len(chars))
            r = cmp_lower_bound(FLIP[op], len(chars), a.k)     # size op' k
            if r is None: raise NeedMore()
            return r
        if isinstance(a, SizeV) and isinstance(b, Rel) and op == '-': return Left(b.k)
        if isinstance(a, Left) and isinstance(b, int) and op in CMP:
            if ended: return cmp_int(op, len(chars) - a.k, b)
            r = cmp_lower_bound(op, len(chars) - a.k, b)
            if r is None: raise NeedMore()
            return r
        if isinstance(a, int) and isinstance(b, Left) and op in CMP: return self.binop(FLIP[op], b, a, e, win)
        raise Undecided('operator %s on %r, %r (line %s)' % (op, a, b, ln))

    def store(self, vid, v, env):
        if isinstance(v, int) and vid in self.counters and v > self.cap: v = self.cap
        env[vid] = v

    def assign(self, e, env, win):
        l = A.strip(e.get('lhs'), casts=True)
        if l is None or l.get('k') != 'DeclRefExpr': raise Undecided('assignment to a non-local (line %s)' % e.get('l'))
        v = self.ev(e.get('rhs'), env, win)
        self.store(l.get('id'), v, env)
        return v

    def incdec(self, e, env, win):
        l = A.strip(e.get('sub'), casts=True)
        if l is None or l.get('k') != 'DeclRefExpr': raise Undecided('++/-- of a non-local (line %s)' % e.get('l'))
        old = self.ev(l, env, win)
        d = 1 if e.get('op') == '++' else -1
        if isinstance(old, Rel): new = Rel(old.k + d)
        elif isinstance(old, int): new = old + d
        else: raise Undecided('++/-- of a symbolic value (line %s)' % e.get('l'))
        self.store(l.get('id'), new, env)
        return old if e.get('postfix') else new

    # ---- statements --------------------------------------------------------------------------------------------
    def ex(self, s, env, win):
        if s is None: return
        k = s.get('k')
        if k == 'NullStmt': return
        if k == 'CompoundStmt':
            for c in s.get('c') or []: self.ex(c, env, win)
            return
        if k == 'DeclStmt':
            for d in s.get('decls') or []:
                if d.get('k') != 'VarDecl': continue
                self.names[d['id']] = d.get('n')
                if d.get('init') is not None: env[d['id']] = self.ev(d['init'], env, win)
            return
        if k == 'IfStmt':
            if s.get('init') is not None: self.ex(s['init'], env, win)
            c = self.truth(self.ev(s.get('cond'), env, win))
            self.ex(s.get('then') if c else s.get('else'), env, win)
            return
        if k == 'SwitchStmt':
            v = self.ev(s.get('cond'), env, win)
            if not isinstance(v, int): raise Undecided('switch over a symbolic value (line %s)' % s.get('l'))
            items = PEval.switch_items(s.get('body'))
            start = dflt = None
            for n, (labels, st) in enumerate(items):
                for lo, hi in labels:
                    if lo == 'default': dflt = n
                    elif lo is not None and lo <= v <= (hi if hi is not None else lo): start = n
                if start is not None: break
            if start is None: start = dflt
            if start is None: return
            try:
                for labels, st in items[start:]: self.ex(st, env, win)
            except Ctl as c:
                if c.kind != 'break': raise
            return
        if k == 'BreakStmt': raise Ctl('break')
        if k == 'ContinueStmt': raise Ctl('continue')
        if k == 'ReturnStmt': raise Ctl('return', s.get('val'))
        if k in ('ForStmt', 'WhileStmt', 'DoStmt', 'CXXForRangeStmt', 'GotoStmt', 'CXXTryStmt', 'LabelStmt'):
            raise Undecided('statement kind %s inside the scanner (line %s)' % (k, s.get('l')))
        self.ev(s, env, win)

    # ---- configurations ----------------------------------------------------------------------------------------
    def config_key(self, env):
        out = []
        for k in sorted((k for k in env if isinstance(k, int)), key=int):
            if k == self.idx or k == self.inp or k in self.body_locals: continue
            v = env[k]
            if isinstance(v, Str): out.append((k, 'S', v.nonempty))
            elif isinstance(v, int): out.append((k, 'I', v))
        return tuple(out)

    def initial(self):
        return self.config_key(dict(self.init_env))

    def env_of(self, key):
        return {k: (Str(v) if t == 'S' else v) for k, t, v in key}

    def describe(self, key):
        if key and key[0] == 'done': return 'finished(%s)' % key[1]
        return ' '.join('%s=%s' % (self.names.get(k, k), v) for k, t, v in key)

    def state_of(self, key):
        for k, t, v in key:
            if k == self.state_id: return v
        return None

    def step(self, key, chars, ended):
        """One loop iteration from configuration `key` knowing the next characters `chars` (and whether the input ends after them).
        Returns ('stop', key) when the loop condition is false, ('step', key', consumed), ('end', key') when the index was set to the
        size, ('break', key') or ('return', value).  Raises NeedMore when the known characters do not decide the iteration."""
        ck = (key, tuple(chars), ended)
        r = self.cache.get(ck)
        if r is not None: return r
        self.steps += 1
        env = self.env_of(key)
        env[self.idx] = Rel(0)
        win = (tuple(chars), ended)
        if not self.truth(self.ev(self.loop.get('cond'), env, win)):
            r = ('stop', key)
        else:
            r = None
            try:
                self.ex(self.loop.get('body'), env, win)
            except Ctl as c:
                if c.kind == 'break': r = ('break', self.config_key(env))
                elif c.kind == 'return':
                    try: v = self.ev(c.value, env, win) if c.value is not None else None
                    except Undecided: v = None
                    r = ('return', v)
            if r is None:
                if self.loop.get('inc') is not None: self.ev(self.loop['inc'], env, win)
                i = env.get(self.idx)
                if isinstance(i, SizeV): r = ('end', self.config_key(env))
                elif isinstance(i, Rel) and 0 <= i.k <= len(chars): r = ('step', self.config_key(env), i.k)
                elif isinstance(i, Rel) and i.k > len(chars) and not ended: raise NeedMore()
                else: raise Undecided('index after one iteration is %r with %d characters known' % (i, len(chars)))
        self.cache[ck] = r
        return r

    def finish(self, key, at):
        """Runs the statements after the loop from configuration `key`.  `at(stmt)` marks the acceptance statement: returns
        ('at', stmt, env) there, or ('return', value) if the function returns first."""
        env = self.env_of(key)
        win = ((), True)
        seen = False
        for st in self.block['c']:
            if st is self.loop: seen = True; continue
            if not seen: continue
            if at is not None and at(st): return ('at', st, env)
            try:
                self.ex(st, env, win)
            except Ctl as c:
                if c.kind == 'return':
                    return ('return', self.ev(c.value, env, win) if c.value is not None else None)
                raise Undecided('control leaves the block after the loop by %s' % c.kind)
        raise Undecided('acceptance point not found after the loop')


def alphabet(constants, candidates):
    """One representative per class of `candidates` that the comparison constants cannot tell apart."""
    ks = sorted(constants)
    reps = {}
    for c in candidates:
        sig = tuple((c < k, c == k) for k in ks)
        reps.setdefault(sig, c)
    return sorted(reps.values())


def inclusion(SA, SB, sigma, verdict_a, verdict_b, limit=400000):
    """Decides L(SA) subset-of L(SB) over sigma*: explores the reachable product of the two scanners reading the same string.
    verdict_x(scanner, result) -> bool gives acceptance once a scanner has finished (`result` is the non-'step' outcome of step()).
    Returns (counterexamples, explored, states); a counterexample is (word, describe_a, describe_b, first character, input ended);
    the first character of the word is part of the product state so that callers can exclude words by their first character exactly."""
    # product state: (ka, kb, la, lb, w, ended) with la/lb = characters of w already consumed by each side; min(la, lb) == 0 unless done
    start = (SA.initial(), SB.initial(), 0, 0, (), False, None)
    seen = {start}; q = deque([(start, '')])
    bad = []
    explored = 0
    def done(k): return bool(k) and k[0] == 'done'
    def push(st, word):
        ka, kb, la, lb, w, ended, first = st
        if first is None and w: first = w[0]
        cut = min(la if not done(ka) else len(w), lb if not done(kb) else len(w))
        if cut:
            word = word + ''.join(chr(c) for c in w[:cut]); w = w[cut:]
            la = max(0, la - cut); lb = max(0, lb - cut)
        st = (ka, kb, la, lb, w, ended, first)
        if st not in seen:
            seen.add(st); q.append((st, word))
    while q:
        (ka, kb, la, lb, w, ended, first), word = q.popleft()
        explored += 1
        if explored > limit: raise Undecided('product exploration exceeded %d states' % limit)
        if done(ka) and not ka[1]: continue               # A rejects: inclusion holds on every extension
        if done(kb) and kb[1]: continue                   # B accepts: likewise
        if done(ka) and done(kb):
            bad.append((word + ''.join(chr(c) for c in w), ka[2], kb[2], first, ended))
            continue
        side = 'a' if (not done(ka) and (done(kb) or la <= lb)) else 'b'
        S, k, l = (SA, ka, la) if side == 'a' else (SB, kb, lb)
        try:
            r = S.step(k, w[l:], ended)
        except NeedMore:
            if ended: raise Undecided('scanner needs input beyond the end')
            if len(w) >= MAXWIN: raise Undecided('look-ahead exceeds %d characters' % MAXWIN)
            for c in sigma: push((ka, kb, la, lb, w + (c,), False, first), word)
            push((ka, kb, la, lb, w, True, first), word)
            continue
        if r[0] == 'step':
            nk = r[1]; nl = l + r[2]
        else:
            v = (verdict_a if side == 'a' else verdict_b)(S, r)
            nk = ('done', bool(v), S.describe(r[1]) if r[0] != 'return' else 'return %s' % r[1]); nl = l
        if side == 'a': push((nk, kb, nl, lb, w, ended, first), word)
        else: push((ka, nk, la, nl, w, ended, first), word)
    return bad, explored, seen
