#!/usr/bin/env python3
"""Exploratory probe (design phase, not framework): resume-point consistency (R03.1)
on basic_json_parser<char>::parse_number / parse_string from a clang -ast-dump=json file.
usage: probe_resume.py dump3.json"""
import json, sys

def load(path):
    s = open(path).read(); dec = json.JSONDecoder(); i = 0; out = []
    while i < len(s):
        while i < len(s) and s[i].isspace(): i += 1
        if i >= len(s): break
        o, j = dec.raw_decode(s, i); out.append(o); i = j
    return out

def kids(n): return [c for c in (n.get('inner') or []) if isinstance(c, dict)]
def find(n, pred, out):
    if pred(n): out.append(n)
    for c in kids(n): find(c, pred, out)
    return out

def enum_name(e):
    r = find(e, lambda n: n.get('kind') == 'DeclRefExpr' and n.get('referencedDecl', {}).get('kind') == 'EnumConstantDecl', [])
    return r[0]['referencedDecl']['name'] if r else None

def analyse(method, state_member):
    body = [c for c in kids(method) if c['kind'] == 'CompoundStmt'][0]
    stmts = kids(body)
    # dispatch: first SwitchStmt whose cases are `goto L`
    labelname = {}
    find(body, lambda n: n.get('kind') == 'LabelStmt' and labelname.setdefault(n['declId'], n['name']) and False, [])
    sw = [s for s in stmts if s['kind'] == 'SwitchStmt'][0]
    dispatch = {}
    cases = find(sw, lambda n: n.get('kind') == 'CaseStmt', [])
    for c in cases:
        st = enum_name(kids(c)[0])
        g = find(c, lambda n: n.get('kind') == 'GotoStmt', [])
        if st and g: dispatch[st] = labelname[g[0]['targetLabelDeclId']]
    # walk top-level statements, tracking current label region
    results = []
    cur = None
    def visit(n, cur):
        if n['kind'] == 'LabelStmt':
            cur = n['name']
            for c in kids(n): cur = visit(c, cur)
            return cur
        # assignment to the state member
        if n['kind'] == 'BinaryOperator' and n.get('opcode') == '=':
            l, r = kids(n)
            m = find(l, lambda x: x.get('kind') == 'MemberExpr' and x.get('name') == state_member, [])
            if m:
                results.append((cur, enum_name(r) or 'zero-init', n.get('range', {}).get('begin', {}).get('line')))
        for c in kids(n): cur = visit(c, cur)
        return cur
    for s in stmts:
        if s is sw: continue
        cur = visit(s, cur)
    return dispatch, results

objs = load(sys.argv[1])
spec = [o for o in objs if o['kind'] == 'ClassTemplateSpecializationDecl'][0]
for meth, member, init in (('parse_number', 'number_state_', None), ('parse_string', 'string_state_', 'text')):
    m = find(spec, lambda n: n.get('kind') == 'CXXMethodDecl' and n.get('name') == meth, [])[0]
    dispatch, res = analyse(m, member)
    print(meth, 'dispatch:', dispatch)
    bad = 0
    for label, st, line in res:
        st2 = init if st == 'zero-init' else st
        target = dispatch.get(st2)
        ok = (target == label)
        if not ok: bad += 1
        print('   under label %-34s saves %-34s -> resumes at %-34s %s' % (label, st2, target, 'OK' if ok else '<<< MISMATCH'))
    print('  ', len(res), 'save sites,', bad, 'mismatches')
