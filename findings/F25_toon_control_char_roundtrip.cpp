#include <jsoncons/json.hpp>
#include <jsoncons_ext/toon/toon.hpp>
#include <jsoncons_ext/toon/decode_toon.hpp>
#include <iostream>
using namespace jsoncons;
int main(){
  int bad=0;
  for (int c=1;c<256;++c){
    std::string s="a:"; s.push_back((char)c); s+="b";
    json o; o["k"]=s;
    std::string out; toon::encode_toon(o,out);
    try { json r = toon::decode_toon<json>(out); if (r!=o){ std::cout<<"c="<<c<<" MISMATCH "<<out<<"\n"; ++bad;} }
    catch(const std::exception& e){ std::cout<<"c="<<c<<" EXC "<<e.what()<<" text="<<out<<"\n"; ++bad;}
  }
  std::cout<<"bad="<<bad<<"\n"; return bad?1:0;
}
