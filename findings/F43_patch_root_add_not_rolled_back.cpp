#include <jsoncons/json.hpp>
#include <jsoncons_ext/jsonpatch/jsonpatch.hpp>
#include <iostream>
using namespace jsoncons;
int main(){
  int bad=0;
  const char* patches[] = {
    R"([{"op":"add","path":"","value":{"z":1}},{"op":"test","path":"/nope","value":1}])",
    R"([{"op":"replace","path":"","value":[1,2]},{"op":"remove","path":"/7"}])",
    R"([{"op":"copy","from":"/a","path":""},{"op":"test","path":"/nope","value":1}])",
    R"([{"op":"move","from":"/a","path":""},{"op":"test","path":"/nope","value":1}])",
    R"([{"op":"remove","path":""},{"op":"test","path":"/nope","value":1}])",
  };
  for (auto ps : patches) {
    json doc = json::parse(R"({"a":{"b":1},"c":[1,2,3]})"); json orig = doc;
    std::error_code ec; jsonpatch::apply_patch(doc, json::parse(ps), ec);
    std::cout << ps << "\n  ec=" << ec.message() << " doc=" << doc << (doc==orig?"  (restored)":"  (NOT RESTORED)") << "\n";
    if (ec && doc!=orig) ++bad;
  }
  std::cout<<"bad="<<bad<<"\n"; return bad?1:0;
}
