#include <jsoncons/json.hpp>
#include <jsoncons_ext/jsonpath/jsonpath.hpp>
#include <iostream>
using namespace jsoncons;
int main(){
  json doc = json::parse(R"({"b":[10,20,30],"a":[1,2]})");
  auto r1 = jsonpath::json_query(doc, "$..[*]", jsonpath::result_options::sort);
  auto r2 = jsonpath::json_query(doc, "$..[*]", jsonpath::result_options::sort_descending);
  auto r3 = jsonpath::json_query(doc, "$..[*]", jsonpath::result_options::sort_descending | jsonpath::result_options::path);
  auto r4 = jsonpath::json_query(doc, "$..[*]", jsonpath::result_options::sort | jsonpath::result_options::path);
  std::cout << "sort            : " << r1 << "\n";
  std::cout << "sort_descending : " << r2 << "\n";
  std::cout << "desc|path       : " << r3 << "\n";
  std::cout << "sort|path       : " << r4 << "\n";
  // expected: r2 is the reverse of r1
  json rev(json_array_arg); for (auto it = r1.array_range().rbegin(); it != r1.array_range().rend(); ++it) rev.push_back(*it);
  std::cout << ((rev == r2) ? "PASS\n" : "FAIL: sort_descending is not the reverse of sort\n");
  return rev == r2 ? 0 : 1;
}
