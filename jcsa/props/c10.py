"""C10 Resource limits hold against hostile input - structural clauses."""
from .. import inline as I, frontend as F, ast as A, cfg as C, util as U, guards as G

EXPLANATION = ('Decides per-site necessary conditions of the resource limits: (R10.1) every container-open emission '
               '(visitor.begin_array/begin_object) in a decoder is dominated - in the same function or at every call site of it - by an '
               'exact nesting-limit comparison whose failing edge stores max_nesting_depth_exceeded and returns; (R10.2) the same for '
               'every encoder visit_begin_array/visit_begin_object; further rules under coverage.rules.')
NOT_DECIDED = ('stack bytes per level, proportionality constants, peak memory as a number; only the listed structural clauses are decided')

LIMIT_NAMES = {'max_nesting_depth_', 'max_nesting_depth'}
OPEN_NAMES = {'begin_array', 'begin_object', 'begin_multi_dim'}

# classes whose size-based test has a root frame pre-pushed on the stack (checked: see root_frame_fact)
SIZE_OFFSET = {
    # class suffix -> (container member, offset added to depth by frames that are not containers, accepted operator)
    'basic_bson_parser': ('state_stack_', 1, '>'),
    'basic_csv_encoder': ('stack_', 0, '>='),
}

class GuardInfo:
    def __init__(self, ok, why, line=0):
        self.ok = ok; self.why = why; self.line = line

def exactness(op, shape, cls):
    """Is `X op limit` (true = reject) exact, i.e. new depth <= limit accepted and limit+1 rejected?"""
    kind, name = shape
    if kind == 'preinc':
        return op == '>', 'pre-increment counter needs `>` (found `%s`)' % op
    if kind == 'postinc':
        return op == '>=', 'post-increment counter needs `>=` (found `%s`)' % op
    if kind == 'plus1':
        return op == '>', 'depth+1 needs `>` (found `%s`)' % op
    if kind == 'size':
        for c, (member, off, wanted) in SIZE_OFFSET.items():
            if c in cls and member == name:
                return op == wanted, '%s.size() test in %s needs `%s` (found `%s`)' % (member, c, wanted, op)
        return None, 'size()-based nesting test on %s in a class without a table entry' % name
    if kind == 'plain':
        return None, 'plain counter comparison (increment position unknown)'
    return None, 'unrecognised compared quantity %s' % name

def limit_cond(g, d, cls):
    """Analysis of one cond node d that compares a quantity with the nesting limit: None if it is not such a test, else
    (GuardInfo, reject_label, reject region): the guard is sound (exact limit, reject edge stores the error and leaves)."""
    lt = G.limit_test(d.ast, LIMIT_NAMES)
    if lt is None: return None
    op, x, lim = lt
    shape = G.quantity_shape(x)
    if shape[0] == 'plain':
        # `++depth; if (depth > max)`: the increment stands as its own statement directly before the test (only statements, no
        # other branch, between them): the compared value is the new depth, as with `++depth > max`
        cur = d; hops = 0
        while hops < 4:
            preds = [p for p in cur.pred if p.kind != 'join' or True]
            if len(cur.pred) != 1: break
            cur = cur.pred[0]; hops += 1
            if cur.kind in ('join', 'edge'): continue
            if cur.kind != 'stmt' or not isinstance(cur.ast, dict): break
            inc = False
            for y in A.walk_no_lambda(cur.ast):
                if y.get('k') == 'UnaryOperator' and y.get('op') == '++' and A.ref_name(y.get('sub')) == shape[1]: inc = True
                if y.get('k') == 'CompoundAssignOperator' and y.get('op') == '+=' and A.ref_name(y.get('lhs')) == shape[1] and A.const(y.get('rhs')) == 1: inc = True
            if inc: shape = ('preinc', shape[1]); break
            if any(y.get('k') in ('MemberExpr', 'DeclRefExpr') and y.get('n') == shape[1] for y in A.walk_no_lambda(cur.ast)): break
    # which edge is the reject edge?  `X op L` true -> reject for > >= ; for < <= the false edge rejects
    reject_label = True
    if op in ('<', '<='):
        reject_label = False; op = G.NEG[op]
    elif op not in ('>', '>='):
        return GuardInfo(False, 'nesting limit compared with `%s`' % op, d.line), None, []
    rej = [e for e in d.succ if e.kind == 'edge' and e.label is reject_label]
    if not rej:
        return GuardInfo(False, 'nesting test has no reject edge (constant condition?)', d.line), None, []
    region = G.region_of_edge(g, rej[0])
    stores = any(n.kind == 'stmt' and G.assigns_enumerator(n.ast, {'ec'}, 'max_nesting_depth_exceeded') for n in region)
    returns = any(n.kind == 'return' for n in region) or any(n.kind == 'stmt' and any(s is g.exit_throw for s in n.succ) for n in region)
    if not stores:
        # throwing variant: JSONCONS_THROW(ser_error(errc::max_nesting_depth_exceeded))
        throws = any(n.kind == 'stmt' and any(s is g.exit_throw for s in n.succ) and
                     any(x.get('n') == 'max_nesting_depth_exceeded' for x in A.walk(n.ast)) for n in region)
        if not throws:
            return GuardInfo(False, 'reject edge of the nesting test does not store max_nesting_depth_exceeded', d.line), reject_label, region
    if not returns:
        return GuardInfo(False, 'reject edge of the nesting test does not return', d.line), reject_label, region
    ex, why = exactness(op, shape, cls)
    if ex is None:
        return GuardInfo(False, why, d.line), reject_label, region
    if not ex:
        return GuardInfo(False, 'inexact limit: ' + why, d.line), reject_label, region
    return GuardInfo(True, 'guard `%s` at line %d' % (A.text(d.ast), d.line), d.line), reject_label, region

def limit_wrapper(inter, callee):
    """Summary of a helper that wraps the nesting test (`bool enter(ec) { if (++depth > max) { ec = ...; return false; } return true; }`):
    (GuardInfo, value returned on rejection) when every return inside the reject region gives one constant and every other return the
    opposite constant; None when the helper is not of that shape."""
    if callee is None or callee.get('body') is None: return None
    key = ('wrapper', callee['_unit'], callee['id'])
    if key in inter.cfgs: return inter.cfgs[key]
    res = None
    g = inter.cfg(callee)
    for d in g.rpo:
        if d.kind != 'cond': continue
        lc = limit_cond(g, d, callee.get('cls', callee['q']))
        if lc is None: continue
        gi, reject_label, region = lc
        rets = [n for n in g.rpo if n.kind == 'return']
        inside = [A.const(n.ast.get('val')) for n in rets if n in region]
        outside = [A.const(n.ast.get('val')) for n in rets if n not in region]
        if not inside or not outside or None in inside or None in outside: break
        if len(set(bool(v) for v in inside)) != 1 or len(set(bool(v) for v in outside)) != 1 or bool(inside[0]) == bool(outside[0]): break
        res = (gi, bool(inside[0]))
        break
    inter.cfgs[key] = res
    return res

def find_guard(g, node, cls, inter=None, fn=None):
    """Look for a dominating nesting-limit comparison of `node` in CFG g.
    Returns (GuardInfo|None).  A guard is a cond node C comparing X with max_nesting_depth such that
    node is dominated by C's pass edge, or by C itself when the reject region stores the error and returns
    (the JSON parser's soft error-handler pattern).  A call of a helper that wraps such a test and reports the outcome as a
    bool (limit_wrapper) counts as the test itself."""
    doms = g.dominators(node)
    for d in doms:
        if d.kind != 'cond': continue
        lc = limit_cond(g, d, cls)
        if lc is None and inter is not None and fn is not None:
            ct = G.call_truth(d.ast)
            w = limit_wrapper(inter, inter.facts.callee(fn, ct[0])) if ct else None
            if w is None: continue
            gi, rejv = w
            if not gi.ok: return GuardInfo(False, 'limit wrapper %s: %s' % (A.callee_name(ct[0]), gi.why), d.line)
            reject_label = (rejv == ct[1])
            rej = [e for e in d.succ if e.kind == 'edge' and e.label is reject_label]
            pas = [e for e in d.succ if e.kind == 'edge' and e.label is (not reject_label)]
            if not rej or not pas: return GuardInfo(False, 'call of the limit wrapper %s is not a two-way branch' % A.callee_name(ct[0]), d.line)
            region = G.region_of_edge(g, rej[0])
            if not (any(n.kind == 'return' for n in region) or any(n.kind == 'stmt' and any(s is g.exit_throw for s in n.succ) for n in region)):
                return GuardInfo(False, 'the caller does not leave when the limit wrapper %s reports failure' % A.callee_name(ct[0]), d.line)
            if pas[0] not in doms:
                return GuardInfo(False, 'open site is reachable from the failing outcome of the limit wrapper %s' % A.callee_name(ct[0]), d.line)
            return GuardInfo(True, 'guard through %s(): %s' % (A.callee_name(ct[0]), gi.why), d.line)
        if lc is None: continue
        gi, reject_label, region = lc
        if not gi.ok: return gi
        pas = [e for e in d.succ if e.kind == 'edge' and e.label is (not reject_label)]
        if pas and (pas[0] in doms):
            pass  # hard pattern
        else:
            # soft pattern: reject region may fall through only after consulting the error handler
            soft = any(n.kind == 'stmt' and any(A.callee_name(c) == 'operator()' or A.ref_name(c.get('callee')) == 'err_handler_' or
                                                 (A.is_call(c) and A.ref_name(c.get('obj')) == 'err_handler_')
                                                 for c in A.calls_in(n.ast)) for n in region)
            if not soft:
                return GuardInfo(False, 'open site is reachable from the reject edge of the nesting test', d.line)
        return gi
    return None

class Inter:
    """Call-site index of one unit for interprocedural guard search."""
    def __init__(self, facts, fns):
        self.facts = facts
        self.cfgs = {}
        self.callers = {}   # (unit, callee id) -> [(fn, call ast)]
        self.by_name = {}   # name -> [(fn, call ast)] for virtual dispatch
        for fn in fns:
            for c in A.calls_in(fn['body']):
                cid = c.get('cid')
                if cid is not None:
                    self.callers.setdefault((fn['_unit'], cid), []).append((fn, c))
                    if c.get('cvirt'):
                        self.by_name.setdefault(A.callee_name(c), []).append((fn, c))
    def cfg(self, fn):
        k = (fn['_unit'], fn['id'], fn['q'])
        if k not in self.cfgs:
            self.cfgs[k] = C.CFG(fn['body'])
        return self.cfgs[k]
    def callers_of(self, fn):
        out = list(self.callers.get((fn['_unit'], fn['id']), []))
        if fn.get('virtual') or fn.get('override'):
            out += [x for x in self.by_name.get(fn['n'], []) if x not in out]
        return out

def guarded(inter, fn, call, depth, seen):
    """(ok, explanation, chain)"""
    g = inter.cfg(fn)
    n = g.node_of(call)
    if n is None:
        return None, 'call not in CFG (inside a lambda or unreachable code)', []
    gi = find_guard(g, n, fn.get('cls', fn['q']), inter, fn)
    if gi is not None:
        return gi.ok, gi.why, [(fn['q'], gi.line)]
    if depth == 0:
        return False, 'no nesting-limit comparison dominates this open (call chain depth exhausted)', []
    key = (fn['_unit'], fn['id'])
    if key in seen:
        return True, 'recursive', []
    callers = inter.callers_of(fn)
    if not callers:
        return False, 'no nesting-limit comparison dominates this open, and %s has no caller that supplies one' % U.site(fn, ''), []
    chain = []
    for cf, cc in callers:
        ok, why, ch = guarded(inter, cf, cc, depth - 1, seen | {key})
        if ok is None: continue
        if not ok:
            return False, 'unguarded via caller %s:%d: %s' % (cf['q'].split('(')[0], cc.get('l', 0), why), ch
        chain = ch
    return True, 'guarded at every call site', chain

DECODERS = [
    # unit, class suffixes / file suffixes, floor of open sites
    ('core', dict(cls=['basic_json_parser']), 2),
    ('cbor', dict(cls=['basic_cbor_parser'], files=['cbor_typed_array_iterator.hpp']), 8),
    ('msgpack', dict(cls=['basic_msgpack_parser']), 2),
    ('ubjson', dict(cls=['basic_ubjson_parser']), 6),
    ('bson', dict(cls=['basic_bson_parser']), 2),
    ('toon', dict(files=['toon_reader.hpp', 'decode_toon.hpp']), 6),
]

def in_scope(fn, sel):
    c = A.strip_targs(fn.get('cls') or '')
    if any(c.endswith(x) for x in sel.get('cls', [])): return True
    if any(fn['file'].endswith(x) for x in sel.get('files', [])): return True
    return False

# open emissions that do not open a new level (reason, supporting fact checked on every run)
RELABEL = {
    ('basic_bson_parser', 'array_expected'): 'relabels the already-open root document as an array (replaces the begin_object '
                                             'event of the root, state_stack_.back().mode is assigned, no frame is pushed)',
}

def is_visitor_open(c):
    if not A.is_call(c): return False
    if A.callee_name(c) not in OPEN_NAMES: return False
    q = A.strip_targs(c.get('cq', ''))
    return 'visitor' in q

def r10_1(chk, tier):
    chk.rule('R10.1', 'every visitor.begin_array/begin_object emission in a decoder is dominated (locally or at every call site) by an exact '
                      'nesting-limit comparison whose failing edge stores max_nesting_depth_exceeded and returns', floor=26)
    for unit, sel, floor in DECODERS:
        facts = F.load([unit], tier)
        chk.units.append(unit)
        fns = [f for f in facts.functions if not f.get('dep') and f.get('body')]
        inter = Inter(facts, fns)
        n_open = 0
        for fn in U.one_per_inst([f for f in fns if in_scope(f, sel)]):
            chk.analysed(fn)
            opens = [c for c in A.calls_in(fn['body']) if is_visitor_open(c)]
            rl = [v for (c_, n_), v in RELABEL.items() if A.strip_targs(fn.get('cls') or '').endswith(c_) and fn['n'] == n_]
            if rl and opens:
                pushes = [c for c in A.calls_in(fn['body']) if A.callee_name(c) in ('emplace_back', 'push_back')]
                if pushes:
                    chk.fail('R10.1', U.site(fn, 'relabel'), fn['file'], pushes[0].get('l'),
                             '%s is exempt as a relabelling open but now pushes a frame' % fn['n'], None, fn['q'])
                else:
                    chk.ok('R10.1', U.site(fn, 'relabel'), {'function': fn['q'], 'exempt': rl[0]}, nontrivial=False)
                continue
            for i, c in enumerate(opens):
                n_open += 1
                ok, why, chain = guarded(inter, fn, c, 3, frozenset())
                site = U.site(fn, 'open#%d=%s' % (i + 1, A.callee_name(c)))
                facts_ = {'function': fn['q'], 'open': A.text(c)[:120], 'line': c.get('l'), 'verdict': why, 'guard_chain': chain}
                if ok is None:
                    chk.note('%s:%s open site skipped: %s' % (fn['file'], c.get('l'), why)); continue
                if ok:
                    chk.ok('R10.1', site, facts_)
                else:
                    chk.fail('R10.1', site, fn['file'], c.get('l'), '%s in %s: %s' % (A.callee_name(c), U.site(fn, '').strip(), why), facts_, fn['q'])
        chk.require(n_open >= floor, 'R10.1: only %d open sites found in unit %s (expected >= %d)' % (n_open, unit, floor))

ENCODERS = [
    ('core', ['basic_json_encoder', 'basic_compact_json_encoder']),
    ('cbor', ['basic_cbor_encoder']),
    ('msgpack', ['basic_msgpack_encoder']),
    ('ubjson', ['basic_ubjson_encoder']),
    ('bson', ['basic_bson_encoder']),
    ('csv', ['basic_csv_encoder']),
]

def first_level_push(g, n):
    """The push is dominated by the true edge of `stack_.empty()`: it opens level 1 from depth 0."""
    for ast, label, d in g.guards(n):
        s = A.strip(ast)
        if label is True and s is not None and A.is_call(s) and A.callee_name(s) == 'empty' and A.ref_name(s.get('obj')) == 'stack_':
            return True
    return False

def r10_2(chk, tier):
    chk.rule('R10.2', 'every encoder visit_begin_array/visit_begin_object passes an exact nesting-limit comparison (reject edge stores '
                      'max_nesting_depth_exceeded and returns) before anything else is written or pushed', floor=14)
    for unit, classes in ENCODERS:
        facts = F.load([unit], tier)
        if unit not in chk.units: chk.units.append(unit)
        inter = Inter(facts, [])
        for cls in classes:
            fns = [f for f in U.functions(facts, cls=cls) if f['n'] in ('visit_begin_array', 'visit_begin_object')]
            chk.require(fns, 'R10.2: %s has no visit_begin_array/visit_begin_object' % cls)
            for fn in U.one_per_inst(fns):
                chk.analysed(fn)
                g = C.CFG(fn['body'])
                site = U.site(fn, 'nparams=%d' % len(fn['params']))
                pushes = [c for c in A.calls_in(fn['body']) if A.is_call(c) and A.callee_name(c) in ('emplace_back', 'push_back')
                          and A.ref_name(c.get('obj')) == 'stack_']
                if not pushes:
                    delegates = [c for c in A.calls_in(fn['body']) if A.callee_name(c) in ('visit_begin_array', 'visit_begin_object')]
                    if delegates:
                        chk.ok('R10.2', site, {'function': fn['q'], 'delegates_to': A.callee_name(delegates[0])}, nontrivial=False)
                        continue
                    # no frame pushed: the function must be a pure rejection (every path stores an error)
                    stores = [n for n in g.rpo if n.kind == 'stmt' and U.assigned_member(n.ast) and U.assigned_member(n.ast)[0] == 'ec']
                    if stores:
                        chk.ok('R10.2', site, {'function': fn['q'], 'rejects': True}, nontrivial=False)
                        continue
                    chk.broken('R10.2: %s pushes no frame, delegates nowhere and stores no error' % fn['q'])
                for i, c in enumerate(pushes):
                    n = g.node_of(c)
                    gi = find_guard(g, n, fn.get('cls', ''), inter, fn) if n is not None else None
                    psite = site + ' push#%d' % (i + 1)
                    if gi is None and n is not None and first_level_push(g, n):
                        chk.ok('R10.2', psite, {'function': fn['q'], 'push_line': c.get('l'),
                                                'guard': 'first level: dominated by stack_.empty() (depth 0 -> 1)'})
                        continue
                    if gi is None:
                        chk.fail('R10.2', psite, fn['file'], c.get('l'), 'frame push in %s is not dominated by a nesting-limit comparison' % fn['n'],
                                 {'function': fn['q'], 'push': A.text(c)}, fn['q'])
                    elif not gi.ok:
                        chk.fail('R10.2', psite, fn['file'], gi.line, gi.why, {'function': fn['q'], 'push': A.text(c)}, fn['q'])
                    else:
                        chk.ok('R10.2', psite, {'function': fn['q'], 'push_line': c.get('l'), 'guard': gi.why})

def r10_3(chk, tier):
    chk.rule('R10.3', 'every push of a container frame on a decoder state stack (state_stack_.emplace_back(parse_mode::X, ...), X != root) is '
                      'dominated - locally or at every call site - by an exact nesting-limit comparison', floor=20)
    n = 0
    for unit, sel, floor in DECODERS[1:5]:
        facts = F.load([unit], tier)
        fns = [f for f in facts.functions if not f.get('dep') and f.get('body')]
        inter = Inter(facts, fns)
        for fn in U.one_per_inst([f for f in fns if in_scope(f, sel)]):
            if fn.get('fk') in ('CXXConstructor',) or fn['n'] in ('reset', 'restart', 'reinitialize'): continue
            pushes = []
            for c in A.calls_in(fn['body']):
                if A.is_call(c) and A.callee_name(c) in ('emplace_back', 'push_back') and A.ref_name(c.get('obj')) == 'state_stack_':
                    a0 = (c.get('args') or [None])[0]
                    mode = U.enum_const_name(a0)
                    if mode is None or mode == 'root': continue
                    pushes.append((c, mode))
            if not pushes: continue
            chk.analysed(fn)
            for i, (c, mode) in enumerate(pushes):
                n += 1
                ok, why, chain = guarded(inter, fn, c, 3, frozenset())
                site = U.site(fn, 'push#%d=%s' % (i + 1, mode))
                facts_ = {'function': fn['q'], 'push': A.text(c)[:100], 'line': c.get('l'), 'verdict': why}
                if ok is None: continue
                if ok: chk.ok('R10.3', site, facts_ if i == 0 else None)
                else: chk.fail('R10.3', site, fn['file'], c.get('l'), 'frame parse_mode::%s pushed in %s: %s' % (mode, U.site(fn, '').strip(), why), facts_, fn['q'])
    chk.require(n >= 20, 'R10.3: only %d container-frame pushes found' % n)

TAINT_SCOPE = [
    # unit, file suffixes, parameter names that carry a length requested on behalf of the input
    ('core', ('jsoncons/source.hpp',), ('length',)),
    ('cbor', ('cbor_parser.hpp', 'cbor_typed_array_iterator.hpp'), ()),
    ('msgpack', ('msgpack_parser.hpp',), ()),
    ('ubjson', ('ubjson_parser.hpp',), ()),
    ('bson', ('bson_parser.hpp',), ()),
    ('reflect', ('reflect/decode_traits.hpp',), ()),
    ('core', ('jsoncons/json_decoder.hpp', 'jsoncons/staj_cursor.hpp', 'jsoncons/staj_event.hpp'), ()),
]

def r10_4(chk, tier):
    from .. import taint as T
    chk.rule('R10.4', 'no allocation-sizing call (reserve, resize, sized vector/string construction) in the decoders, the source readers, '
                      'json_decoder or decode_traits takes a size that derives from a length declared by the input without a cap '
                      '(min with a bounded operand such as chunk_size() or a constant)', floor=6)
    n = 0
    for unit, files, tparams in TAINT_SCOPE:
        facts = F.load([unit], tier)
        if unit not in chk.units: chk.units.append(unit)
        fns = [f for f in facts.functions if f.get('body') is not None and f['file'].endswith(files)]
        inst = set((f['file'], f['l']) for f in fns if not f.get('dep'))
        seen = set()
        work = []
        for fn in fns:
            if fn.get('dep') and (fn['file'], fn['l']) in inst: continue
            work.append((fn, tuple(tparams)))
        done = set()
        while work:
            fn, tp = work.pop()
            key = (fn['file'], fn['l'], fn['q'], tp)
            if key in done: continue
            done.add(key)
            tainted, sinks, passed = T.analyse(fn, tp)
            has_sink_calls = any(x.get('k') == 'CXXMemberCallExpr' and A.callee_name(x) in T.SINKS for x in A.walk_no_lambda(fn['body']))
            if has_sink_calls or sinks:
                chk.analysed(fn)
                skey = (fn['file'], fn['l'], tp)
                if skey not in seen:
                    seen.add(skey)
                    n += 1
                    site = U.site(fn, 'sizing calls' + ('(%s)' % ','.join(tp) if tp else ''))
                    if sinks:
                        c, a = sinks[0]
                        chk.fail('R10.4', site, fn['file'], c.get('l'), '`%s` in %s is sized by `%s`, which derives from a length declared by the input, without a cap' % (
                            A.text(c)[:60], fn['n'], A.text(a)[:40]), {'function': fn['q'], 'tainted_params': list(tp)}, fn['q'])
                    else:
                        chk.ok('R10.4', site, {'function': fn['q'], 'verdict': 'every sizing call is constant, capped or sized by data already present'})
            # one level of parameter passing inside the unit
            for call, idx in passed:
                callee = facts.callee(fn, call)
                if callee is None or callee.get('body') is None: continue
                args = call.get('args') or []
                off = 1 if (call.get('k') == 'CXXOperatorCallExpr' and callee.get('fk') == 'CXXMethod') else 0
                pi = idx - off
                if 0 <= pi < len(callee['params']) and len(tp) < 3:
                    pname = callee['params'][pi]['n']
                    if pname: work.append((callee, (pname,)))
    chk.require(n >= 6, 'R10.4: only %d functions with sizing calls analysed' % n)

def r10_5(chk, tier):
    chk.rule('R10.5', 'UBJSON max_items: every length that sizes a counted container is compared with max_items_ (`length > max_items_` -> '
                      'max_items_exceeded) before the frame is pushed, and indefinite containers count items against it', floor=6)
    facts = F.load(['ubjson'], tier)
    n = 0
    for fn in U.one_per_inst(U.functions(facts, cls='basic_ubjson_parser')):
        if fn.get('body') is None: continue
        g = None
        # (a) counted pushes
        for c in A.calls_in(fn['body']):
            if A.is_call(c) and A.callee_name(c) in ('emplace_back', 'push_back') and A.ref_name(c.get('obj')) == 'state_stack_':
                args = c.get('args') or []
                mode = U.enum_const_name(args[0]) if args else None
                if mode in (None, 'root') or 'indefinite' in (mode or ''): continue
                lv = A.ref_name(args[1]) if len(args) > 1 else ''
                if not lv: continue
                if g is None: g = C.CFG(fn['body'])
                nd = g.node_of(c)
                n += 1
                chk.analysed(fn)
                ok = False
                tests = []
                for cond_ast, label, edge in (g.guards(nd) if nd else []):
                    tests.append((cond_ast, label, edge, {}))
                    # the same test made inside a bool helper whose outcome the caller branches on (`if (!read_count(length, ec)) return;`)
                    for callee2, g2, c2, lab2, e2, names in G.implied_by_call(facts, fn, cond_ast, label):
                        tests.append((c2, lab2, e2, names))
                for cond_ast, label, edge, names in tests:
                    cmp_ = G.comparison(cond_ast)
                    if cmp_ and names.get(A.ref_name(cmp_[1]), A.ref_name(cmp_[1])) == lv and A.ref_name(cmp_[2]) == 'max_items_' and cmp_[0] == '>' and label is False:
                        rej = [e for e in edge.src.succ if e.label is True]
                        if rej and any(x.kind == 'stmt' and G.assigns_enumerator(x.ast, {'ec'}, 'max_items_exceeded') for x in G.block_after(rej[0])): ok = True
                site = U.site(fn, 'counted push %s(%s)' % (mode, lv))
                if ok: chk.ok('R10.5', site, {'function': fn['q'], 'line': c.get('l')})
                else: chk.fail('R10.5', site, fn['file'], c.get('l'), 'frame parse_mode::%s is pushed with the announced count `%s` that was not compared with max_items_ (`%s > max_items_` -> max_items_exceeded)' % (mode, lv, lv), None, fn['q'])
        # (b) indefinite containers count items
        for x in A.walk_no_lambda(fn['body']):
            if x.get('k') == 'BinaryOperator' and x.get('op') in ('>', '>=') and A.ref_name(x.get('rhs')) == 'max_items_':
                l = A.strip(x.get('lhs'), casts=True)
                if l is not None and l.get('k') == 'UnaryOperator' and l.get('op') == '++':
                    n += 1
                    site = U.site(fn, 'indefinite item count @%d' % (x.get('l', 0) - fn['l']))
                    shape = G.quantity_shape(x.get('lhs'))
                    exact = (shape[0] == 'preinc' and x['op'] == '>') or (shape[0] == 'postinc' and x['op'] == '>=')
                    if exact: chk.ok('R10.5', site, {'function': fn['q'], 'line': x.get('l')})
                    else: chk.fail('R10.5', site, fn['file'], x.get('l'), 'item count of an indefinite container compared inexactly with max_items_ (`%s`)' % A.text(x)[:50], None, fn['q'])
    chk.require(n >= 6, 'R10.5: only %d max_items comparisons/pushes found' % n)

def r10_6(chk, tier):
    chk.rule('R10.6', 'stack-safe destruction: the destructors of json_array, sorted_json_object and ordered_json_object call '
                      'flatten_and_destroy(), which moves non-empty children of both container kinds to its work list before clearing', floor=3)
    facts = F.load(['core'], tier)
    for cls, file in (('json_array', 'json_array.hpp'), ('sorted_json_object', 'sorted_json_object.hpp'), ('order_preserving_json_object', 'ordered_json_object.hpp')):
        dts = [f for f in facts.functions if f.get('fk') == 'CXXDestructor' and not f.get('dep') and f['file'].endswith(file) and f.get('body') is not None]
        chk.require(dts, 'destructor in %s not found' % file)
        for fn in U.one_per_inst(dts)[:2]:
            chk.analysed(fn)
            site = U.site(fn, 'destructor')
            calls = [c for c in A.calls_in(fn['body']) if A.callee_name(c) == 'flatten_and_destroy']
            if not calls:
                chk.fail('R10.6', site, fn['file'], fn['l'], 'destructor does not call flatten_and_destroy(): destroying a deeply nested value recurses once per level', None, fn['q']); continue
            callee = facts.callee(fn, calls[0])
            # the routine may be split into private helpers (E11): analysed with those calls expanded
            if callee is not None and callee.get('body') is not None: callee = I.expand(facts, callee, depth=3)
            kinds_moved = set()
            if callee is not None and callee.get('body') is not None:
                g = C.CFG(callee['body'])
                for nd in g.rpo:
                    if nd.kind == 'stmt' and isinstance(nd.ast, dict) and any(A.callee_name(c) in ('push_back', 'emplace_back') for c in A.calls_in(nd.ast)):
                        # case labels (possibly stacked: `case array: case object:`) of the dominating kind switch that lead here
                        for d in g.dominators(nd):
                            if d.kind == 'switch':
                                for e in d.succ:
                                    if e.kind == 'edge' and isinstance(e.label, tuple) and e.label[0] == 'case' and g.can_reach(e, [nd], avoid=[d]):
                                        kinds_moved.add(e.label[1])
                                break
                        # or an explicit test of both kinds in one condition
                        for a, lab, e in g.guards(nd):
                            for y in A.walk(a):
                                if y.get('k') == 'DeclRefExpr' and y.get('dk') == 'EnumConstant' and y.get('n') in ('array', 'object'): kinds_moved.add(y.get('v'))
            # the children are taken out of the container itself: a loop that iterates over copies of the elements copies every subtree
            # (recursively) and leaves the originals nested
            copies = []
            if callee is not None and callee.get('body') is not None:
                for x in A.walk_no_lambda(callee['body']):
                    if x.get('k') == 'CXXForRangeStmt' and x.get('var') is not None and x['var'].get('t'):
                        vt = callee['_types'][x['var']['t'] - 1]
                        if not vt.rstrip().endswith('&'): copies.append((x.get('l'), vt))
            if copies:
                chk.fail('R10.6', site, fn['file'], copies[0][0], 'flatten_and_destroy() iterates over the children by value (`%s`, line %s): each child is deep-copied (recursion per level) and '
                         'the nested originals are destroyed recursively afterwards' % (copies[0][1][:60], copies[0][0]), None, fn['q'])
                continue
            if len(kinds_moved) >= 2: chk.ok('R10.6', site, {'function': fn['q'], 'kinds_flattened': sorted(kinds_moved)})
            else: chk.fail('R10.6', site, fn['file'], fn['l'], 'flatten_and_destroy() moves children of %d container kind(s) to the work list, both array and object are needed' % len(kinds_moved), None, fn['q'])

DEPTH_PAIRS = [('begin_array', 'end_array'), ('begin_object', 'end_object'), ('visit_begin_array', 'visit_end_array'),
               ('visit_begin_object', 'visit_end_object')]

def r10_7(chk, tier):
    """Depth counter balance: what an open adds to the nesting counter the matching close takes off again."""
    chk.rule('R10.7', 'depth counter balance: in every parser/encoder class whose container open increments a depth/level counter, the matching '
                      'close decrements the same counter exactly once on every path that does not store an error (otherwise sibling containers '
                      'accumulate depth and a flat document is rejected, or the limit stops counting)', floor=30)
    n = 0
    for unit in ('core', 'cbor', 'msgpack', 'ubjson', 'bson', 'csv'):
        facts = F.load([unit], tier)
        if unit not in chk.units: chk.units.append(unit)
        classes = {}
        for f in facts.functions:
            if f.get('body') is None or f.get('dep') or not f.get('cls'): continue
            classes.setdefault(f['cls'], {}).setdefault(f['n'], []).append(f)
        def not_interface(callee, call):
            # helpers a begin/end function was split into; never another visitor entry point
            return not callee['n'].startswith('visit_') and callee['n'] not in ('end_value', 'begin_value')
        def counters(fns, op):
            out = set()
            for f in fns:
                for x in (y for b in I.closure_bodies(facts, f, allow=not_interface) for y in A.walk_no_lambda(b)):
                    if x.get('k') == 'UnaryOperator' and x.get('op') == op:
                        s2 = A.strip(x.get('sub'), casts=True)
                        if s2 is not None and s2.get('k') == 'MemberExpr' and ('depth' in s2.get('n', '') or 'level' in s2.get('n', '')): out.add(s2['n'])
            return out
        for cls, fns in sorted(classes.items()):
            short = A.strip_targs(cls).split('::')[-1]
            # the fixed pairs plus every begin_X / end_X pair of the class (begin_classical_array_storage / end_classical_array_storage ...)
            pairs = list(DEPTH_PAIRS) + sorted((b, 'end_' + b[6:]) for b in fns if b.startswith('begin_') and ('end_' + b[6:]) in fns and (b, 'end_' + b[6:]) not in DEPTH_PAIRS)
            for b, e in pairs:
                if b not in fns or e not in fns: continue
                incs = counters(fns[b], '++'); decs = counters(fns[e], '--')
                if not incs and not decs: continue
                # only counters that are compared with the nesting limit somewhere in the class
                limited = set()
                for fl in fns.values():
                    for f2 in fl:
                        for x in A.walk_no_lambda(f2['body']):
                            if x.get('k') == 'BinaryOperator' and x.get('op') in ('<', '<=', '>', '>=') and 'max_nesting_depth' in A.text(x):
                                for y in A.walk(x):
                                    if y.get('k') == 'MemberExpr' and y.get('n') in (incs | decs): limited.add(y['n'])
                for ctr in sorted((incs | decs) & limited):
                    for f in U.one_per_inst(fns[e]):
                        n += 1
                        chk.analysed(f)
                        site = U.site(f, '%s balance' % ctr)
                        if ctr not in incs:
                            chk.fail('R10.7', site, f['file'], f['l'], '%s::%s decrements %s but %s never increments it' % (short, e, ctr, b), None, f['q']); continue
                        g = C.CFG(I.expand(facts, f, allow=not_interface)['body'])
                        dec_nodes = []; err_nodes = []
                        for nd in g.rpo:
                            if nd.kind not in ('stmt', 'cond', 'return') or not isinstance(nd.ast, dict): continue
                            for x in A.walk_no_lambda(nd.ast):
                                if x.get('k') == 'UnaryOperator' and x.get('op') == '--':
                                    s2 = A.strip(x.get('sub'), casts=True)
                                    if s2 is not None and s2.get('k') == 'MemberExpr' and s2.get('n') == ctr: dec_nodes.append(nd)
                            am = U.assigned_member(nd.ast) if nd.kind == 'stmt' else None
                            if am and am[0] == 'ec': err_nodes.append(nd)
                        # `if (ec) return;` after a visitor call: the true outcome is an error path
                        for nd in g.rpo:
                            if nd.kind == 'edge' and nd.label is True and isinstance(nd.ast, dict) and G.comparison(nd.ast) is None and any(y.get('k') == 'DeclRefExpr' and y.get('n') == 'ec' for y in A.walk(nd.ast)): err_nodes.append(nd)
                        missing = g.can_reach(g.entry, [g.exit_return], avoid=dec_nodes + err_nodes)
                        twice = any(g.can_reach(s2, dec_nodes) for d in dec_nodes for s2 in d.succ)
                        if not missing and not twice: chk.ok('R10.7', site, {'class': short, 'close': e, 'counter': ctr})
                        elif missing: chk.fail('R10.7', site, f['file'], f['l'], '%s::%s can return normally without `--%s`, while %s increments it: every closed container leaves the depth one higher' % (short, e, ctr, b), None, f['q'])
                        else: chk.fail('R10.7', site, f['file'], dec_nodes[0].line, '%s::%s decrements %s twice on one path' % (short, e, ctr), None, f['q'])
    chk.require(n >= 30, 'R10.7: only %d open/close pairs with a depth counter found' % n)

def r10_8(chk, tier):
    """A parser or encoder that is reused starts counting depth from zero again."""
    chk.rule('R10.8', 'reuse: in every parser/encoder class that counts nesting depth against max_nesting_depth and has reset(), each reset overload '
                      '(by itself or through the overload it calls) sets that counter back to 0; otherwise the depth reached when an input was '
                      'refused or broke off is carried into the next input, which is then refused below the limit', floor=4)
    n = 0
    for unit in ('core', 'cbor', 'msgpack', 'ubjson', 'bson', 'csv'):
        facts = F.load([unit], tier)
        if unit not in chk.units: chk.units.append(unit)
        classes = {}
        for f in facts.functions:
            if f.get('body') is None or f.get('dep') or not f.get('cls'): continue
            classes.setdefault(f['cls'], {}).setdefault(f['n'], []).append(f)
        for cls, fns in sorted(classes.items()):
            if 'reset' not in fns: continue
            short = A.strip_targs(cls).split('::')[-1]
            incd = set(); limited = set()
            for fl in fns.values():
                for f2 in fl:
                    for x in A.walk_no_lambda(f2['body']):
                        if x.get('k') == 'UnaryOperator' and x.get('op') == '++':
                            s2 = A.strip(x.get('sub'), casts=True)
                            if s2 is not None and s2.get('k') == 'MemberExpr' and ('depth' in s2.get('n', '') or 'level' in s2.get('n', '')): incd.add(s2['n'])
                        if x.get('k') == 'BinaryOperator' and x.get('op') in ('<', '<=', '>', '>=') and 'max_nesting_depth' in A.text(x):
                            for y in A.walk(x):
                                if y.get('k') == 'MemberExpr': limited.add(y.get('n'))
            for ctr in sorted(incd & limited):
                for f in U.one_per_inst(fns['reset']):
                    n += 1
                    chk.analysed(f)
                    site = U.site(f, 'reset of %s' % ctr)
                    zeroed = False
                    for b in I.closure_bodies(facts, f, depth=2):
                        for x in A.walk_no_lambda(b):
                            am = U.assigned_member(x) if x.get('k') in ('BinaryOperator', 'CXXOperatorCallExpr') else None
                            if am and am[0] == ctr and A.const(am[1]) == 0: zeroed = True
                    if zeroed: chk.ok('R10.8', site, {'class': short, 'counter': ctr})
                    else: chk.fail('R10.8', site, f['file'], f['l'], '%s::reset does not set %s back to 0: a reader reused after an input that was refused for depth (or broke off inside '
                                   'containers) counts the next input from the old depth' % (short, ctr), None, f['q'])
    chk.require(n >= 4, 'R10.8: only %d reset functions of depth-counting classes found' % n)

def r10_9(chk, tier):
    """An encoder helper that opens a container through the encoder's own begin function closes it through the matching end function."""
    chk.rule('R10.9', 'composite values close what they open: an encoder member function that writes a composite value by calling the encoder\'s own '
                      'visit_begin_array / visit_begin_object (a decimal fraction or bigfloat as a two-element array) reaches the matching '
                      'visit_end_array / visit_end_object on every path that does not store an error; closing by hand (popping the stack) '
                      'skips what the end function does - the depth counter stays one level up and later values are refused below the limit', floor=2)
    n = 0
    PAIRS = {'visit_begin_array': 'visit_end_array', 'visit_begin_object': 'visit_end_object', 'begin_array': 'end_array', 'begin_object': 'end_object'}
    for unit in ('core', 'cbor', 'msgpack', 'ubjson', 'bson', 'csv'):
        facts = F.load([unit], tier)
        if unit not in chk.units: chk.units.append(unit)
        for fn in U.one_per_inst([f for f in facts.functions if f.get('body') is not None and not f.get('dep') and 'encoder' in A.strip_targs(f.get('cls') or '').split('::')[-1]]):
            if fn['n'] in PAIRS or fn['n'] in PAIRS.values(): continue
            if 'begin_' in fn['n']: continue      # an opener in its own right (begin_array_with_tag): it leaves the container open by design
            opens = [c for c in A.calls_in(fn['body'], no_lambda=True) if c.get('k') == 'CXXMemberCallExpr' and A.callee_name(c) in PAIRS and (A.strip(c.get('obj'), casts=True) or {}).get('k') == 'CXXThisExpr']
            if not opens: continue
            g = C.CFG(fn['body'])
            chk.analysed(fn)
            errs = [nd for nd in g.rpo if nd.kind == 'stmt' and isinstance(nd.ast, dict) and (U.assigned_member(nd.ast) or (None,))[0] == 'ec']
            errs += [nd for nd in g.rpo if nd.kind == 'edge' and nd.label is True and isinstance(nd.ast, dict) and G.comparison(nd.ast) is None and any(y.get('k') == 'DeclRefExpr' and y.get('n') == 'ec' for y in A.walk(nd.ast))]
            for i, c in enumerate(opens):
                n += 1
                want = PAIRS[A.callee_name(c)]
                on = g.node_of(c)
                closes = [nd for nd in g.rpo if nd.kind in ('stmt', 'cond', 'return') and isinstance(nd.ast, dict) and
                          any(y.get('k') == 'CXXMemberCallExpr' and A.callee_name(y) == want and (A.strip(y.get('obj'), casts=True) or {}).get('k') == 'CXXThisExpr' for y in A.calls_in(nd.ast))]
                site = U.site(fn, '%s#%d' % (A.callee_name(c), i + 1))
                leak = on is not None and any(g.can_reach(s2, [g.exit_return], avoid=closes + errs) for s2 in on.succ)
                if not leak: chk.ok('R10.9', site, {'class': A.strip_targs(fn.get('cls') or '').split('::')[-1], 'function': fn['n'], 'closes': len(closes)})
                else:
                    chk.fail('R10.9', site, fn['file'], c.get('l'), '%s::%s opens a container with %s() (line %s) and can return normally without %s(): whatever that function undoes (the nesting '
                             'depth counter among it) stays as the open left it' % (A.strip_targs(fn.get('cls') or '').split('::')[-1], fn['n'], A.callee_name(c), c.get('l'), want), None, fn['q'])
    chk.require(n >= 2, 'R10.9: only %d composite writers found in the encoders' % n)

def run(chk, tier, only_rule=None):
    chk.explanation = EXPLANATION
    chk.not_decided = NOT_DECIDED
    r10_1(chk, tier)
    r10_2(chk, tier)
    r10_3(chk, tier)
    r10_4(chk, tier)
    r10_5(chk, tier)
    r10_6(chk, tier)
    r10_7(chk, tier)
    r10_8(chk, tier)
    r10_9(chk, tier)
