#!/usr/bin/env python3
"""Re-run the property check against every stored seeded change (or the ones named) and record the outcome.

For each /verif/seeded/<name>/: copy /repo/include to a scratch directory, apply patch.diff there, run
bin/vcheck <property> --tier quick with VERIF_REPO_INCLUDE pointing at the copy, and write the rules that fired into
meta.json (detected_now, fired_rules, first_report).  /repo itself is never touched.
Usage: seed_recheck.py [name ...] [-j N]
"""
import json, os, re, shutil, subprocess, sys, tempfile
from concurrent.futures import ThreadPoolExecutor
ROOT = os.path.dirname(os.path.dirname(os.path.abspath(__file__)))
REPO = os.environ.get('VERIF_REPO', '/repo')

def one(name):
    d = os.path.join(ROOT, 'seeded', name)
    meta = json.load(open(os.path.join(d, 'meta.json')))
    pid = meta['property']
    sc = tempfile.mkdtemp(prefix='seedchk-')
    try:
        shutil.copytree(os.path.join(REPO, 'include'), os.path.join(sc, 'include'))
        r = subprocess.run(['patch', '-p1', '-s', '-i', os.path.join(d, 'patch.diff')], cwd=sc, capture_output=True, text=True)
        if r.returncode != 0:
            meta['detected_now'] = None; meta['recheck_note'] = 'patch does not apply to current /repo: ' + r.stdout[:200]
        else:
            env = dict(os.environ, VERIF_REPO_INCLUDE=os.path.join(sc, 'include'), VERIF_OUT_DIR=os.path.join(sc, 'out'))
            r = subprocess.run([sys.executable, os.path.join(ROOT, 'bin', 'vcheck'), pid, '--tier', 'quick'], cwd=ROOT, env=env,
                               capture_output=True, text=True)
            lines = [l for l in r.stdout.splitlines() if re.match(r'^\S+:\d+: R', l)]
            rules = sorted({re.match(r'^\S+:\d+: (R[\w.]+)', l).group(1) for l in lines})
            meta['check_exit_on_patched_tree'] = r.returncode
            meta['detected'] = meta['detected_now'] = (r.returncode == 1)
            meta['fired_rules'] = rules
            meta['first_report'] = lines[0][:300].replace(sc + '/', '') if lines else ''
            meta.pop('recheck_note', None)
    finally:
        shutil.rmtree(sc, ignore_errors=True)
    json.dump(meta, open(os.path.join(d, 'meta.json'), 'w'), indent=1)
    return name, meta.get('detected_now'), meta.get('fired_rules')

def main():
    args = sys.argv[1:]; j = 4
    if '-j' in args:
        i = args.index('-j'); j = int(args[i + 1]); del args[i:i + 2]
    names = args or sorted(n for n in os.listdir(os.path.join(ROOT, 'seeded')) if os.path.exists(os.path.join(ROOT, 'seeded', n, 'meta.json')))
    with ThreadPoolExecutor(j) as ex:
        for name, det, rules in ex.map(one, names):
            print(f'{name}: detected={det} rules={rules}')
main()
