"""Shared lookups over facts."""
from . import ast as A
from .frontend import AnalysisBroken

def functions(facts, cls=None, name=None, file=None, dep=False, pred=None):
    """Function records filtered by class (template args stripped, suffix match), name, file suffix."""
    out = []
    for f in facts.functions:
        if not dep and f.get('dep'): continue
        if name is not None and f['n'] != name: continue
        if file is not None and not f['file'].endswith(file): continue
        if cls is not None:
            c = f.get('cls')
            if c is None: continue
            if not A.strip_targs(c).endswith(cls): continue
        if pred is not None and not pred(f): continue
        out.append(f)
    return out

def one_per_inst(fns):
    """De-duplicate function records by full qualified name + params (overloads kept by line)."""
    seen = {}
    for f in fns:
        seen.setdefault((f['q'], f['l'], tuple(f.get('ta') or ())), f)
    return list(seen.values())

def site(fn, construct):
    from .report import norm_fn
    return '%s %s %s' % (fn['file'], norm_fn(fn['q']), construct)

def is_member_ref(e, name):
    e = A.strip(e)
    return e is not None and e.get('k') == 'MemberExpr' and e.get('n') == name

def assigned_member(stmt):
    """If stmt is `member = expr` (builtin or overloaded =) return (member name, rhs) else None."""
    s = A.strip(stmt)
    if s is None: return None
    if s.get('k') == 'BinaryOperator' and s.get('op') == '=':
        l = A.strip(s.get('lhs'))
        if l is not None and l.get('k') == 'MemberExpr':
            return (l.get('n'), s.get('rhs'))
        if l is not None and l.get('k') == 'DeclRefExpr':
            return (l.get('n'), s.get('rhs'))
    if s.get('k') == 'CXXOperatorCallExpr' and s.get('oop') == '=':
        a = s.get('args') or []
        if len(a) == 2:
            l = A.strip(a[0])
            if l is not None and l.get('k') in ('MemberExpr', 'DeclRefExpr'):
                return (l.get('n'), a[1])
    return None

def enum_const_name(e):
    """Name of the enumerator an expression denotes (through casts), else None."""
    s = A.strip(e, casts=True)
    if s is not None and s.get('k') == 'DeclRefExpr' and s.get('dk') == 'EnumConstant':
        return s.get('n')
    return None

def enum_by_suffix(facts, suffix):
    for e in facts.enums:
        if e['q'].endswith(suffix):
            return e
    raise AnalysisBroken('enum %s not found' % suffix)

def enum_value_names(enum):
    d = {}
    for n, v in enum['values']:
        d.setdefault(v, n)
    return d
