// instantiation driver: toon
#include <jsoncons/json.hpp>
#include <jsoncons_ext/toon/toon.hpp>
#include <jsoncons_ext/toon/decode_toon.hpp>
void jcsa_use_toon(const std::string& s, std::istream& is)
{
    using namespace jsoncons;
    json j = toon::decode_toon<json>(s);
    ojson oj = toon::decode_toon<ojson>(is);
    std::string out;
    toon::encode_toon(j, out);
    std::string out2;
    toon::encode_toon(oj, out2); // the ostream overload does not compile when instantiated (N6)
}
