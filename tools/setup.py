#!/usr/bin/env python3
"""setup_cmd: builds the clang plugin from /verif/plugin with the local clang 14 (offline) and byte-compiles the analysers."""
import sys, os, compileall
sys.path.insert(0, os.path.dirname(os.path.dirname(os.path.abspath(__file__))))
from jcsa import frontend
frontend.build_plugin(force=True)
compileall.compile_dir(os.path.join(frontend.VERIF, 'jcsa'), quiet=1)
print('setup ok:', frontend.PLUGIN_SO)
