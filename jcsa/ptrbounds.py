"""E9: cursor-bounds typestate.  For the hand-written scanners that walk a raw character pointer P towards an end pointer E,
a forward must-dataflow over the CFG keeps, for every pointer name, a lower bound ("margin") on E - P that the dominating
comparisons have established:

    P < E, !(P >= E), P != E, !(P == E)              -> margin >= 1
    E - P >= n (true edge), E - P > n                -> margin >= n (n+1)
    ++P, P++                                         -> margin - 1       P += k -> margin - k      any other write -> 0
    merge                                            -> minimum

and every dereference *P, *(P+k), P[k] needs margin >= k+1 in the state that reaches it.  Nothing is executed; paths are
not pruned (so a dereference guarded only by an infeasible-path argument is reported - none exists in the analysed scanners).
"""
from . import ast as A, cfg as C, guards as G

CHARLIKE = {'char', 'wchar_t', 'char16_t', 'char32_t', 'char8_t', 'unsignedchar', 'signedchar', 'uint8_t', 'std::uint8_t',
            'value_type', 'char_type', 'CharT'}

def pname(e):
    s = A.strip(e, casts=True)
    if s is None: return None
    if s.get('k') == 'DeclRefExpr' and s.get('dk') in ('Var', 'ParmVar'): return s.get('n')
    if s.get('k') == 'MemberExpr':
        b = A.strip(s.get('base'), casts=True)
        if b is None or b.get('k') == 'CXXThisExpr': return s.get('n')
    return None

def is_ptr_type(t):
    t = (t or '').replace('const', '').strip()
    return t.endswith('*')

class Analysis:
    def __init__(self, fn, types, ptrs=None, entry=None, killers=None):
        """ptrs: names to track (None = every pointer-typed name that is dereferenced); entry: name -> margin at function entry;
        killers: callable(call ast) -> iterable of names the call may move."""
        self.fn = fn; self.types = types
        self.g = C.CFG(fn['body'])
        self.entry = dict(entry or {})
        self.killers = killers or (lambda call: ())
        self.ptrs = ptrs
        self.reports = []      # (node, name, need, have, line)
        self.derefs = 0
        self.in_state = {}

    def tname(self, e):
        t = e.get('t')
        return self.types[t - 1] if t else ''

    # ---- expression scanning
    def deref_of(self, x):
        """(name, offset) if x itself dereferences a tracked pointer, else None."""
        k = x.get('k')
        tgt = None
        if k == 'UnaryOperator' and x.get('op') == '*': tgt = x.get('sub')
        elif k == 'ArraySubscriptExpr': tgt = {'k': 'BinaryOperator', 'op': '+', 'lhs': x.get('lhs') or x.get('base'), 'rhs': x.get('rhs') or x.get('idx')}
        if tgt is None: return None
        s = A.strip(tgt, casts=True)
        if s is None: return None
        off = 0
        if s.get('k') == 'BinaryOperator' and s.get('op') in ('+', '-'):
            c = A.const(s.get('rhs'))
            n = pname(s.get('lhs')); ref = s.get('lhs')
            if n is None or c is None:
                n2 = pname(s.get('rhs')); c2 = A.const(s.get('lhs'))
                if s.get('op') == '+' and n2 is not None and c2 is not None: n, c, ref = n2, c2, s.get('rhs')
                else: return None
            off = c if s.get('op') == '+' else -c
            name = n; s = A.strip(ref, casts=True)
        elif s.get('k') == 'UnaryOperator' and s.get('op') in ('++', '--') and pname(s.get('sub')):
            name = pname(s.get('sub'))
            off = 0 if s.get('postfix') else (1 if s.get('op') == '++' else -1)
            s = A.strip(s.get('sub'), casts=True)
        else:
            name = pname(s)
        if name is None or not self.tracked(name, s): return None
        return name, off

    def refine_tree(self, cond, label, st):
        s = A.strip(cond)
        if s is None: return
        k = s.get('k')
        if k == 'BinaryOperator' and s.get('op') == '&&':
            if label is True: self.refine_tree(s['lhs'], True, st); self.refine_tree(s['rhs'], True, st)
            return
        if k == 'BinaryOperator' and s.get('op') == '||':
            if label is False: self.refine_tree(s['lhs'], False, st); self.refine_tree(s['rhs'], False, st)
            return
        if k == 'UnaryOperator' and s.get('op') == '!':
            self.refine_tree(s['sub'], not label, st); return
        if k == 'CallExpr' and A.callee_name(s) == '__builtin_expect' and s.get('args'):
            self.refine_tree(A.strip(s['args'][0], casts=True), label, st); return
        self.refine(s, label, st)

    def deref_sites(self, ast, st=None):
        """(name, offset, line, margin known there) for every dereference of a tracked pointer inside ast (lambdas excluded);
        conditional operators and short-circuit operands are evaluated under the facts their condition establishes."""
        out = []
        def rec(x, st):
            if x is None: return
            k = x.get('k')
            if k == 'LambdaExpr': return
            if k == 'ConditionalOperator':
                rec(x.get('cond'), st)
                a = dict(st); self.refine_tree(x.get('cond'), True, a); rec(x.get('then'), a)
                b = dict(st); self.refine_tree(x.get('cond'), False, b); rec(x.get('else'), b)
                return
            if k == 'BinaryOperator' and x.get('op') in ('&&', '||'):
                rec(x.get('lhs'), st)
                a = dict(st); self.refine_tree(x.get('lhs'), x.get('op') == '&&', a); rec(x.get('rhs'), a)
                return
            d = self.deref_of(x)
            if d is not None: out.append((d[0], d[1], x.get('l', 0), st.get(d[0], 0)))
            for c in A.children(x): rec(c, st)
        rec(ast, dict(st or {}))
        return out

    def tracked(self, name, e=None):
        if self.ptrs is not None: return name in self.ptrs
        t = self.tname(e or {}).replace('const', '').replace(' ', '')
        # a cursor is a pointer to a character-like scalar, not a pointer to a pointer or to a class
        return t.endswith('*') and not t.endswith('**') and t[:-1] in CHARLIKE

    def writes(self, ast):
        """name -> delta (int) or None (arbitrary write) for pointer writes inside ast."""
        out = {}
        def put(n, d):
            if n in out and (out[n] is None or d is None): out[n] = None
            elif n in out: out[n] += d
            else: out[n] = d
        for x in A.walk_no_lambda(ast):
            k = x.get('k')
            if k == 'UnaryOperator' and x.get('op') in ('++', '--'):
                n = pname(x.get('sub'))
                if n: put(n, 1 if x['op'] == '++' else None)
            elif k == 'CompoundAssignOperator':
                n = pname(x.get('lhs'))
                if n:
                    c = A.const(x.get('rhs'))
                    put(n, c if (x.get('op') == '+=' and c is not None and c >= 0) else None)
            elif k == 'BinaryOperator' and x.get('op') == '=':
                n = pname(x.get('lhs'))
                if n:
                    # P = P + k keeps the relation
                    r = A.strip(x.get('rhs'), casts=True)
                    if r is not None and r.get('k') == 'BinaryOperator' and r.get('op') == '+' and pname(r.get('lhs')) == n and A.const(r.get('rhs')) is not None and A.const(r.get('rhs')) >= 0:
                        put(n, A.const(r.get('rhs')))
                    else: put(n, None)
            elif k in A.CALLS:
                for n in self.killers(x): put(n, None)
                for a in x.get('args') or []:
                    s = A.strip(a, casts=True)
                    if s is not None and s.get('k') == 'UnaryOperator' and s.get('op') == '&' and pname(s.get('sub')): put(pname(s.get('sub')), None)
            elif k == 'VarDecl' or (k == 'DeclStmt'):
                pass
        # a declaration (re)binds the name
        if ast.get('k') == 'DeclStmt':
            for d in ast.get('decls') or []:
                if d.get('n'): out[d['n']] = None
        return out

    def refine(self, cond, label, st):
        """margin facts from the outcome `label` of the atomic condition `cond`."""
        c = G.comparison(cond)
        if not c or label not in (True, False): return
        op, l, r = c
        if label is False: op = {'<': '>=', '>=': '<', '>': '<=', '<=': '>', '==': '!=', '!=': '=='}[op]
        ln, rn = pname(l), pname(r)
        lt, rt = self.tname(A.strip(l, casts=True) or {}), self.tname(A.strip(r, casts=True) or {})
        # pointer against pointer
        if ln and is_ptr_type(lt) and is_ptr_type(rt) and A.const(r) is None and op in ('<', '!='):
            st[ln] = max(st.get(ln, 0), 1)
        if rn and is_ptr_type(rt) and is_ptr_type(lt) and A.const(l) is None and op in ('>',):
            st[rn] = max(st.get(rn, 0), 1)
        if ln and rn and op == '!=' and is_ptr_type(lt) and is_ptr_type(rt):
            pass   # `P != E`: P is the cursor by convention (left operand)
        # offset tests: P + k < E, !(P + k >= E), and P + k != E / !(P + k == E) when k <= the margin already known
        def offs(e):
            s = A.strip(e, casts=True)
            if s is not None and s.get('k') == 'BinaryOperator' and s.get('op') == '+' and pname(s.get('lhs')) and A.const(s.get('rhs')) is not None \
               and is_ptr_type(self.tname(A.strip(s.get('lhs'), casts=True) or {})):
                return pname(s.get('lhs')), A.const(s.get('rhs'))
            return None, None
        on, ok_ = offs(l)
        if on is not None and ok_ >= 0 and is_ptr_type(rt) and A.const(r) is None:
            if op == '<': st[on] = max(st.get(on, 0), ok_ + 1)
            elif op == '!=' and st.get(on, 0) >= ok_: st[on] = max(st.get(on, 0), ok_ + 1)
        on, ok_ = offs(r)
        if on is not None and ok_ >= 0 and is_ptr_type(lt) and A.const(l) is None:
            if op == '>': st[on] = max(st.get(on, 0), ok_ + 1)
        # distance tests: E - P >= n / > n ; n <= E - P
        def dist(e):
            s = A.strip(e, casts=True)
            if s is not None and s.get('k') == 'BinaryOperator' and s.get('op') == '-' and pname(s.get('rhs')) and is_ptr_type(self.tname(A.strip(s.get('rhs'), casts=True) or {})):
                return pname(s.get('rhs'))
            return None
        dl, dr = dist(l), dist(r)
        if dl is not None and A.const(r) is not None:
            n = A.const(r)
            if op == '>=': st[dl] = max(st.get(dl, 0), n)
            elif op == '>': st[dl] = max(st.get(dl, 0), n + 1)
            elif op == '!=' and n == 0: st[dl] = max(st.get(dl, 0), 1)
        if dr is not None and A.const(l) is not None:
            n = A.const(l)
            if op == '<=': st[dr] = max(st.get(dr, 0), n)
            elif op == '<': st[dr] = max(st.get(dr, 0), n + 1)

    # ---- dataflow
    def run(self):
        g = self.g
        IN = {g.entry.id: dict(self.entry)}
        order = g.rpo
        changed = True; it = 0
        def meet(a, b):
            return {k: min(a.get(k, 0), b.get(k, 0)) for k in set(a) | set(b) if min(a.get(k, 0), b.get(k, 0)) > 0}
        OUT = {}
        while changed and it < 60:
            changed = False; it += 1
            for n in order:
                if n is not g.entry:
                    ps = [OUT[p.id] for p in n.pred if p.id in OUT]
                    if not ps: continue
                    st = dict(ps[0])
                    for q in ps[1:]: st = meet(st, q)
                else:
                    st = dict(self.entry)
                IN[n.id] = dict(st)
                out = dict(st)
                if n.kind == 'edge':
                    self.refine(n.ast, n.label, out)
                elif n.kind in ('stmt', 'cond', 'switch', 'return') and isinstance(n.ast, dict):
                    for name, d in self.writes(n.ast).items():
                        if d is None: out.pop(name, None)
                        else:
                            m = out.get(name, 0) - d
                            if m > 0: out[name] = m
                            else: out.pop(name, None)
                elif n.kind == 'catch':
                    out = {}
                if OUT.get(n.id) != out:
                    OUT[n.id] = out; changed = True
        self.in_state = IN
        for n in order:
            if n.kind in ('stmt', 'cond', 'switch', 'return') and isinstance(n.ast, dict) and n.id in IN:
                st = IN[n.id]
                wr = self.writes(n.ast)
                for name, off, line, have in self.deref_sites(n.ast, st):
                    self.derefs += 1
                    need = off + 1
                    if need <= 0: continue          # reading behind the cursor (already scanned text)
                    if have < need:
                        self.reports.append((n, name, need, have, line or n.line))
        return self


class StackDepth:
    """The same must-dataflow for a container used as a push-down stack: a lower bound on its size.
        !S.empty(), S.size() > k, S.size() >= k        -> bound
        S.push_back / emplace_back                      -> +1        S.pop_back -> needs >= 1, then -1
        S.back()                                        -> needs >= 1
        any other non-const member call on S            -> 0
    """
    def __init__(self, fn, types, stack_name, entry=0):
        self.fn = fn; self.types = types; self.name = stack_name
        self.g = C.CFG(fn['body'])
        self.entry = entry
        self.reports = []   # (node, what, have, line)
        self.uses = 0

    def is_stack(self, e):
        return pname(e) == self.name

    def events(self, ast):
        """Ordered list of ('need'|'push'|'pop'|'kill', line) inside one CFG node, in source order of evaluation (approximated by walk order
        of the calls, innermost first)."""
        ev = []
        for x in A.walk_no_lambda(ast):
            if x.get('k') not in A.CALLS: continue
            obj = x.get('obj')
            if obj is None or not self.is_stack(obj): continue
            nm = A.callee_name(x)
            if nm in ('back', 'top'): ev.append(('need', x.get('l', 0), nm))
            elif nm in ('push_back', 'emplace_back', 'push'): ev.append(('push', x.get('l', 0), nm))
            elif nm in ('pop_back', 'pop'): ev.append(('pop', x.get('l', 0), nm))
            elif nm in ('size', 'empty', 'begin', 'end', 'rbegin', 'rend', 'cbegin', 'cend', 'capacity', 'reserve', 'operator[]', 'at', 'data'): pass
            elif not x.get('cconst'): ev.append(('kill', x.get('l', 0), nm))
        # walk() visits outer calls before inner ones; evaluation runs inner first
        return list(reversed(ev))

    def refine(self, cond, label, d):
        s = A.strip(cond, casts=True)
        if s is None or label not in (True, False): return d
        if s.get('k') in A.CALLS and s.get('obj') is not None and self.is_stack(s['obj']) and A.callee_name(s) == 'empty':
            return max(d, 1) if label is False else 0
        c = G.comparison(s)
        if c:
            op, l, r = c
            if label is False: op = {'<': '>=', '>=': '<', '>': '<=', '<=': '>', '==': '!=', '!=': '=='}[op]
            def is_size(e):
                e = A.strip(e, casts=True)
                return e is not None and e.get('k') in A.CALLS and e.get('obj') is not None and self.is_stack(e['obj']) and A.callee_name(e) == 'size'
            if is_size(l) and A.const(r) is not None:
                k = A.const(r)
                if op == '>': return max(d, k + 1)
                if op == '>=': return max(d, k)
                if op == '==': return max(d, k)
                if op == '!=' and k == 0: return max(d, 1)
            if is_size(r) and A.const(l) is not None:
                k = A.const(l)
                if op == '<': return max(d, k + 1)
                if op == '<=': return max(d, k)
        return d

    def run(self):
        g = self.g
        OUT = {}; IN = {}
        changed = True; it = 0
        while changed and it < 80:
            changed = False; it += 1
            for n in g.rpo:
                if n is g.entry: d = self.entry
                else:
                    ps = [OUT[p.id] for p in n.pred if p.id in OUT]
                    if not ps: continue
                    d = min(ps)
                IN[n.id] = d
                o = d
                if n.kind == 'edge': o = self.refine(n.ast, n.label, d)
                elif n.kind in ('stmt', 'cond', 'switch', 'return') and isinstance(n.ast, dict):
                    for what, line, nm in self.events(n.ast):
                        if what == 'push': o += 1
                        elif what == 'pop': o = max(0, o - 1)
                        elif what == 'kill': o = 0
                elif n.kind == 'catch': o = 0
                if OUT.get(n.id) != o:
                    OUT[n.id] = o; changed = True
        for n in g.rpo:
            if n.kind in ('stmt', 'cond', 'switch', 'return') and isinstance(n.ast, dict) and n.id in IN:
                d = IN[n.id]
                for what, line, nm in self.events(n.ast):
                    if what in ('need', 'pop'):
                        self.uses += 1
                        if d < 1: self.reports.append((n, nm, d, line or n.line))
                    if what == 'push': d += 1
                    elif what == 'pop': d = max(0, d - 1)
                    elif what == 'kill': d = 0
        return self


# ------------------------------------------------------------------------------------------------ file-level driver
def cursor_vocabulary(fns, types_of):
    """Names of character pointers that some function of the group compares with another pointer (the scanners' cursors)."""
    names = set()
    for fn in fns:
        ty = types_of(fn)
        def tn(e):
            e = A.strip(e, casts=True) or {}
            t = e.get('t'); return ty[t - 1] if t else ''
        for x in A.walk_no_lambda(fn['body']):
            c = G.comparison(x) if x.get('k') in ('BinaryOperator', 'CXXOperatorCallExpr') else None
            if not c: continue
            op, l, r = c
            for a, b in ((l, r), (r, l)):
                s = A.strip(a, casts=True)
                if s is None: continue
                cand = None
                if pname(s) and is_ptr_type(tn(s)) and is_ptr_type(tn(b)): cand = (pname(s), s)
                elif s.get('k') == 'BinaryOperator' and s.get('op') == '+' and pname(s.get('lhs')) and is_ptr_type(tn(s.get('lhs'))) and is_ptr_type(tn(b)): cand = (pname(s['lhs']), A.strip(s['lhs'], casts=True))
                elif s.get('k') == 'BinaryOperator' and s.get('op') == '-' and pname(s.get('rhs')) and is_ptr_type(tn(s.get('rhs'))) and A.const(b) is not None: cand = (pname(s['rhs']), A.strip(s['rhs'], casts=True))
                if cand:
                    t = tn(cand[1]).replace('const', '').replace(' ', '')
                    if t.endswith('*') and not t.endswith('**') and t[:-1] in CHARLIKE: names.add(cand[0])
    return names

def direct_writers(fns, names):
    """function decl id -> set of cursor *member* names the function writes directly."""
    out = {}
    for fn in fns:
        w = set()
        for x in A.walk_no_lambda(fn['body']):
            k = x.get('k'); tgt = None
            if k == 'UnaryOperator' and x.get('op') in ('++', '--'): tgt = x.get('sub')
            elif k in ('CompoundAssignOperator',) or (k == 'BinaryOperator' and x.get('op') == '='): tgt = x.get('lhs')
            s = A.strip(tgt, casts=True) if tgt is not None else None
            if s is not None and s.get('k') == 'MemberExpr' and pname(s) in names: w.add(pname(s))
        out[fn['id']] = w
    return out

def analyse_group(facts, fns, end_names=()):
    """Analyse a group of functions of one file together.  Returns (list of Analysis, cursor names)."""
    fns = [f for f in fns if f.get('body') is not None and not f.get('dep')]
    types_of = lambda f: f['_types']
    names = cursor_vocabulary(fns, types_of) - set(end_names)
    byid = {f['id']: f for f in fns}
    writes = direct_writers(fns, names)
    # transitive closure over calls inside the group
    calls = {f['id']: set() for f in fns}
    for f in fns:
        for c in A.calls_in(f['body'], no_lambda=True):
            cal = facts.callee(f, c)
            if cal is not None and cal['id'] in byid: calls[f['id']].add(cal['id'])
    ch = True
    while ch:
        ch = False
        for f in fns:
            for cid in calls[f['id']]:
                add = writes[cid] - writes[f['id']]
                if add: writes[f['id']] |= add; ch = True
    def make_killers(f):
        def killers(call):
            cal = facts.callee(f, call)
            if cal is not None and cal['id'] in byid: return writes[cal['id']]
            return ()
        return killers
    INF = 1 << 20
    # entry margins: member cursors and pointer parameters, from the call sites inside the group (optimistic start, decreasing)
    callers = {f['id']: [] for f in fns}
    for f in fns:
        for c in A.calls_in(f['body'], no_lambda=True):
            cal = facts.callee(f, c)
            if cal is not None and cal['id'] in byid and cal['id'] != f['id']: callers[cal['id']].append((f, c))
    entry = {}
    for f in fns:
        e = {}
        if callers[f['id']]:
            for n in names: e[n] = INF
        entry[f['id']] = e
    result = {}
    for rnd in range(6):
        new_entry = {f['id']: dict(entry[f['id']]) for f in fns}
        seen_call = {f['id']: False for f in fns}
        for f in fns:
            an = Analysis(f, f['_types'], ptrs=names, entry={k: v for k, v in entry[f['id']].items() if v > 0}, killers=make_killers(f)).run()
            result[f['id']] = an
            g = an.g
            for n in g.rpo:
                if n.kind not in ('stmt', 'cond', 'switch', 'return') or not isinstance(n.ast, dict) or n.id not in an.in_state: continue
                st = an.in_state[n.id]
                for c in A.calls_in(n.ast, no_lambda=True):
                    cal = facts.callee(f, c)
                    if cal is None or cal['id'] not in byid or cal['id'] == f['id']: continue
                    tgt = new_entry[cal['id']]
                    pmap = {}
                    for p, a in zip(cal.get('params') or [], c.get('args') or []):
                        s = A.strip(a, casts=True)
                        if s is None: continue
                        if pname(s) in names: pmap[p['n']] = st.get(pname(s), 0)
                        elif s.get('k') == 'BinaryOperator' and s.get('op') == '+' and pname(s.get('lhs')) in names and A.const(s.get('rhs')) is not None:
                            pmap[p['n']] = max(0, st.get(pname(s['lhs']), 0) - A.const(s['rhs']))
                    pnames = set(p['n'] for p in cal.get('params') or [])
                    for nm in list(tgt):
                        if nm in pnames: v = pmap.get(nm, 0)
                        else: v = st.get(nm, 0)       # member cursor shared by caller and callee
                        tgt[nm] = min(tgt[nm], v)
        if new_entry == entry: break
        entry = new_entry
    return [result[f['id']] for f in fns], names
