#include <jsoncons/json.hpp>
#include <jsoncons_ext/cbor/cbor.hpp>
#include <iostream>
using namespace jsoncons;
int main(){
  json j(json_array_arg);
  j.push_back(json("1267650600228229401496703205376", semantic_tag::bigint));
  j.push_back("hello"); j.push_back("hello");
  std::vector<uint8_t> buf;
  auto opts = cbor::cbor_options{}.pack_strings(true);
  cbor::encode_cbor(j, buf, opts);
  for (auto b : buf) printf("%02x ", b); printf("\n");
  try { json r = cbor::decode_cbor<json>(buf); std::cout << r << "\n" << (r == j ? "equal" : "DIFFERENT") << "\n"; return r==j?0:1; }
  catch (const std::exception& e) { std::cout << "error: " << e.what() << "\n"; return 1; }
}
