"""E3: structural control-flow graph of one function body (if/switch/loops/goto/labels/try),
with conditions decomposed over && || !, explicit edge nodes for every branch, dominators and
reachability queries.  Built from the statement tree; nothing is executed."""
from . import ast as A

class Node:
    __slots__ = ('id', 'kind', 'ast', 'succ', 'pred', 'label', 'src', 'line')
    def __init__(self, id, kind, ast=None, label=None, src=None):
        self.id = id; self.kind = kind; self.ast = ast; self.succ = []; self.pred = []
        self.label = label; self.src = src
        self.line = ast.get('l', 0) if isinstance(ast, dict) else 0
    def __repr__(self):
        return 'N%d:%s@%d%s' % (self.id, self.kind, self.line, (':' + str(self.label)) if self.label is not None else '')

class Ctx:
    __slots__ = ('brk', 'cont', 'sw', 'ret')
    def __init__(self, brk=None, cont=None, sw=None, ret=None):
        self.brk = brk; self.cont = cont; self.sw = sw
        self.ret = ret      # inside an inlined (non-tail) helper call: where its `return` continues

class CFG:
    def __init__(self, body, prune_constants=True):
        self.nodes = []
        self.prune = prune_constants
        self.entry = self._new('entry')
        self.exit_return = self._new('exit')       # normal return / fallthrough
        self.exit_throw = self._new('throw')       # throw expression
        self.exit_unreach = self._new('unreach')   # __builtin_unreachable
        self.labels = {}
        self.owner = {}                            # id(ast node) -> cfg Node
        # named conditions: `const bool too_few = count < length; if (too_few) ...` is analysed as `if (count < length)`.
        # Only side-effect-free initialisers over never-modified variables (ast.pure_aliases, const member calls allowed).
        try:
            self.bool_aliases = {k: v for k, v in A.pure_aliases(body, allow_const_calls=True).items()} if isinstance(body, dict) else {}
        except Exception:
            self.bool_aliases = {}
        self._alias_depth = 0
        try: self.adjacent = A.adjacent_aliases(body) if isinstance(body, dict) else {}
        except Exception: self.adjacent = {}
        self._local = []
        start = self._build(body, self.exit_return, Ctx())
        self._link(self.entry, start)
        self._finish()

    # -- construction ---------------------------------------------------------
    def _new(self, kind, ast=None, label=None, src=None):
        n = Node(len(self.nodes), kind, ast, label, src)
        self.nodes.append(n)
        return n

    def _link(self, a, b):
        a.succ.append(b)

    def _label(self, name):
        n = self.labels.get(name)
        if n is None:
            n = self._new('label', label=name)
            self.labels[name] = n
        return n

    def _edge(self, src, label, target):
        e = self._new('edge', ast=src.ast, label=label, src=src)
        self._link(src, e); self._link(e, target)
        return e

    def _cond(self, e, t, f):
        s = A.strip(e)
        if s is None:
            return t
        k = s.get('k')
        if k == 'BinaryOperator' and s.get('op') == '&&':
            return self._cond(s['lhs'], self._cond(s['rhs'], t, f), f)
        if k == 'BinaryOperator' and s.get('op') == '||':
            return self._cond(s['lhs'], t, self._cond(s['rhs'], t, f))
        if k == 'UnaryOperator' and s.get('op') == '!':
            return self._cond(s['sub'], f, t)
        if k == 'CXXOperatorCallExpr' and s.get('oop') == '!' and len(s.get('args') or []) == 1 and not s.get('cq'):
            return self._cond(s['args'][0], f, t)
        if k == 'CallExpr' and A.callee_name(s) == '__builtin_expect' and s.get('args'):
            return self._cond(A.strip(s['args'][0], casts=True), t, f)
        sc = A.strip(s, casts=True)
        local = self._local[-1] if self._local else {}
        if sc is not None and sc.get('k') == 'DeclRefExpr' and (sc.get('id') in self.bool_aliases or sc.get('id') in local) and self._alias_depth < 4:
            src = local if sc.get('id') in local else self.bool_aliases
            init = A.strip(src[sc['id']], casts=True)
            # only genuine conditions (comparisons, logical operators, negations, boolean calls), not plain values
            if init is not None and (init.get('k') in ('BinaryOperator', 'UnaryOperator', 'CXXOperatorCallExpr', 'CXXMemberCallExpr', 'CallExpr') ):
                if not (init.get('k') == 'BinaryOperator' and init.get('op') not in ('&&', '||', '<', '>', '<=', '>=', '==', '!=')):
                    self._alias_depth += 1
                    try: return self._cond(src[sc['id']], t, f)
                    finally: self._alias_depth -= 1
        n = self._new('cond', ast=s)
        c = A.const(s) if self.prune else None
        if c is None or c:
            self._edge(n, True, t)
        if c is None or not c:
            self._edge(n, False, f)
        return n

    def _terminal_of_expr(self, e):
        """'throw' / 'unreach' if the expression statement never completes normally."""
        s = A.strip(e)
        if s is None: return None
        if s.get('k') == 'CXXThrowExpr': return self.exit_throw
        if s.get('k') == 'CallExpr':
            n = A.callee_name(s)
            if n == '__builtin_unreachable': return self.exit_unreach
            if n in ('abort', 'terminate', '__assert_fail'): return self.exit_throw
        return None

    def _build(self, s, nxt, ctx):
        if s is None:
            return nxt
        k = s.get('k')
        if k == 'NullStmt':
            return nxt
        if k == 'CompoundStmt':
            cur = nxt
            for c in reversed(s.get('c') or []):
                cur = self._build(c, cur, ctx)
            return cur
        if k == 'IfStmt':
            t = self._build(s.get('then'), nxt, ctx)
            f = self._build(s.get('else'), nxt, ctx)
            self._local.append(self.adjacent.get(id(s), {}))
            try: c = self._cond(s.get('cond'), t, f)
            finally: self._local.pop()
            if s.get('var') is not None:
                v = self._new('stmt', ast=s['var']); self._link(v, c); c = v
            if s.get('init') is not None:
                c = self._build(s['init'], c, ctx)
            return c
        if k == 'WhileStmt':
            j = self._new('join')
            b = self._build(s.get('body'), j, Ctx(nxt, j, ctx.sw, ctx.ret))
            c = self._cond(s.get('cond'), b, nxt)
            self._link(j, c)
            return j
        if k == 'DoStmt':
            jb = self._new('join'); jc = self._new('join')
            b = self._build(s.get('body'), jc, Ctx(nxt, jc, ctx.sw, ctx.ret))
            self._link(jb, b)
            c = self._cond(s.get('cond'), jb, nxt)
            self._link(jc, c)
            return jb
        if k == 'ForStmt':
            j = self._new('join')
            inc = self._build(s.get('inc'), j, ctx) if s.get('inc') is not None else j
            b = self._build(s.get('body'), inc, Ctx(nxt, inc, ctx.sw, ctx.ret))
            c = self._cond(s.get('cond'), b, nxt) if s.get('cond') is not None else b
            self._link(j, c)
            return self._build(s.get('init'), j, ctx) if s.get('init') is not None else j
        if k == 'CXXForRangeStmt':
            j = self._new('join')
            b = self._build(s.get('body'), j, Ctx(nxt, j, ctx.sw, ctx.ret))
            n = self._new('cond', ast={'k': 'RangeHasNext', 'l': s.get('l', 0), 'range': s.get('range'), 'var': s.get('var')})
            self._edge(n, True, b); self._edge(n, False, nxt)
            self._link(j, n)
            r = self._new('stmt', ast=s.get('range')) if s.get('range') is not None else None
            if r is not None:
                self._link(r, j); return r
            return j
        if k == 'SwitchStmt':
            sw = self._new('switch', ast=s.get('cond'))
            rec = {'cases': [], 'default': None}
            self._build(s.get('body'), nxt, Ctx(nxt, ctx.cont, rec, ctx.ret))
            covered = []
            for (lo, hi, target, cs) in rec['cases']:
                self._edge(sw, ('case', lo, hi), target)
                covered.append((lo, hi))
            if rec['default'] is not None:
                self._edge(sw, ('default', tuple(covered)), rec['default'])
            else:
                self._edge(sw, ('default', tuple(covered)), nxt)
            if s.get('init') is not None:
                return self._build(s['init'], sw, ctx)
            return sw
        if k == 'CaseStmt':
            t = self._build(s.get('sub'), nxt, ctx)
            j = self._new('join', ast=s)
            self._link(j, t)
            if ctx.sw is not None:
                lo = s.get('lo'); hi = s.get('hi', lo)
                ctx.sw['cases'].append((lo, hi, j, s))
            return j
        if k == 'DefaultStmt':
            t = self._build(s.get('sub'), nxt, ctx)
            j = self._new('join', ast=s)
            self._link(j, t)
            if ctx.sw is not None:
                ctx.sw['default'] = j
            return j
        if k == 'BreakStmt':
            return ctx.brk if ctx.brk is not None else nxt
        if k == 'ContinueStmt':
            return ctx.cont if ctx.cont is not None else nxt
        if k == 'ReturnStmt':
            if ctx.ret is not None:
                # `return` of a helper inlined in the middle of its caller (see inline.py): control continues after the call
                if s.get('val') is None: return ctx.ret
                n = self._new('stmt', ast=s['val']); n.line = s.get('l', 0)
                self._link(n, ctx.ret)
                return n
            n = self._new('return', ast=s)
            self._link(n, self.exit_return)
            return n
        if k == 'InlinedCall':
            # body of a helper substituted for its call; tail calls return from the caller
            # the call itself stays visible as a statement node (rules that look for the helper by name still find it), followed by its body
            if s.get('tail'):
                b = self._build(s.get('body'), ctx.ret if ctx.ret is not None else self.exit_return, Ctx(ret=ctx.ret))
            else:
                b = self._build(s.get('body'), nxt, Ctx(ret=nxt))
            n = self._new('stmt', ast=s.get('call'), label='inlined-call'); n.line = s.get('l', 0)
            self._link(n, b)
            return n
        if k == 'GotoStmt':
            n = self._new('goto', ast=s, label=s.get('label'))
            self._link(n, self._label(s.get('label')))
            return n
        if k == 'LabelStmt':
            j = self._label(s.get('label'))
            j.ast = s; j.line = s.get('l', 0)
            self._link(j, self._build(s.get('sub'), nxt, ctx))
            return j
        if k == 'CXXTryStmt':
            n = self._new('try', ast=s)
            self._link(n, self._build(s.get('body'), nxt, ctx))
            for h in s.get('handlers') or []:
                hn = self._new('catch', ast=h)
                self._link(hn, self._build(h.get('body'), nxt, ctx))
                self._link(n, hn)
            return n
        if k == 'AttributedStmt':
            c = s.get('c') or []
            return self._build(c[-1] if c else None, nxt, ctx)
        # expression statement / DeclStmt
        n = self._new('stmt', ast=s)
        term = self._terminal_of_expr(s)
        self._link(n, term if term is not None else nxt)
        return n

    def _finish(self):
        # reachable subgraph from entry, predecessor lists, reverse postorder
        seen = set(); order = []
        stack = [(self.entry, iter(self.entry.succ))]
        seen.add(self.entry.id)
        while stack:
            n, it = stack[-1]
            adv = False
            for m in it:
                if m.id not in seen:
                    seen.add(m.id); stack.append((m, iter(m.succ))); adv = True; break
            if not adv:
                order.append(n); stack.pop()
        self.rpo = list(reversed(order))
        self.reach = seen
        for n in self.rpo:
            for m in n.succ:
                m.pred.append(n)
        self._idom = self._dominators()
        for n in self.rpo:
            if isinstance(n.ast, dict) and n.kind in ('stmt', 'cond', 'switch', 'return', 'goto'):
                for x in A.walk(n.ast):
                    self.owner.setdefault(id(x), n)

    def _dominators(self):
        idx = {n.id: i for i, n in enumerate(self.rpo)}
        idom = {self.entry.id: self.entry.id}
        changed = True
        def inter(a, b):
            while a != b:
                while idx[a] > idx[b]: a = idom[a]
                while idx[b] > idx[a]: b = idom[b]
            return a
        while changed:
            changed = False
            for n in self.rpo[1:]:
                new = None
                for p in n.pred:
                    if p.id in idom:
                        new = p.id if new is None else inter(p.id, new)
                if new is not None and idom.get(n.id) != new:
                    idom[n.id] = new; changed = True
        return idom

    # -- queries ---------------------------------------------------------------
    def node_of(self, astnode):
        return self.owner.get(id(astnode))

    def dominators(self, n):
        """Strict dominators of n, nearest first."""
        out = []
        cur = n.id
        if cur not in self._idom: return out
        while True:
            d = self._idom[cur]
            if d == cur: break
            out.append(self.nodes[d]); cur = d
        return out

    def dominates(self, a, b):
        return a is b or a in self.dominators(b)

    def guards(self, n):
        """Edge nodes dominating n: list of (cond_ast, label) nearest first."""
        return [(d.ast, d.label, d) for d in self.dominators(n) if d.kind == 'edge']

    def reachable_from(self, start, avoid=()):
        """Nodes reachable from `start` (inclusive) without entering nodes in `avoid`."""
        av = set(x.id for x in avoid)
        seen = set(); stack = [start]
        while stack:
            n = stack.pop()
            if n.id in seen or n.id in av: continue
            seen.add(n.id)
            stack.extend(n.succ)
        return seen

    def can_reach(self, start, targets, avoid=()):
        seen = self.reachable_from(start, avoid)
        return any(t.id in seen for t in targets)

    def stmts(self):
        return [n for n in self.rpo if n.kind in ('stmt', 'cond', 'switch', 'return')]
