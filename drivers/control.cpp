// Positive controls for rules whose expected count on jsoncons is zero: each construct below MUST be
// found by the corresponding detector on every run (otherwise the detector is broken, exit 2).
#include <string>
#include <memory>
#include <vector>
namespace jcsa_control {
struct with_mutable { mutable int cache_ = 0; int get() const { return ++cache_; } };
inline int& handed_out_static() { static int counter = 0; return counter; }
inline char* cast_away(const char* p) { return const_cast<char*>(p); }
struct node { int v = 0; void bump() { ++v; } int peek() const { return v; } };
struct holder { node* n_ = nullptr; void deep_const_breach() const { n_->bump(); } int fine() const { return n_->peek(); } };
inline int* raw_new_control() { return new int(7); }
inline void release_into_container(std::vector<std::unique_ptr<int>>& v) { std::unique_ptr<int> p(new int(1)); v.emplace_back(p.release()); }
inline std::size_t written_static(const std::string& x) { static std::string scratch; scratch.assign(x); return scratch.size(); }
}
