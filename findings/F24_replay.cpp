#include <jsoncons/json.hpp>
#include <jsoncons_ext/msgpack/msgpack.hpp>
#include <iostream>
using namespace jsoncons;
int main(){
    json j(json_array_arg);
    j.push_back(json("1700000000000000000", semantic_tag::epoch_nano));
    j.push_back(json(2));
    std::vector<uint8_t> b;
    try { msgpack::encode_msgpack(j, b); } catch (const std::exception& e) { std::cout << "encode error: " << e.what() << "\n"; return 1; }
    json k = msgpack::decode_msgpack<json>(b);
    std::cout << k << "\n";
    return 0;
}
