#include <jsoncons/json.hpp>
#include <jsoncons_ext/toon/toon.hpp>
#include <jsoncons_ext/toon/decode_toon.hpp>
#include <iostream>
using namespace jsoncons;
int main(){
  int bad=0;
  std::vector<json> vals = { json(-0.5), json("1e+5"), json("1e5"), json("-"), json("0x10"), json("1."), json(".5"), json("+1"), json("1e"), json("01"), json("-01"), json(1e21), json(-1e-7), json("1E5"), json("00"), json("-0"), json(0.1), json("1_000")};
  for (auto& v : vals) {
    json doc; doc["k"] = v;
    std::string out; toon::encode_toon(doc, out);
    try { json r = toon::decode_toon<json>(out); bool same = (r == doc) && (r["k"].type() == v.type() || (r["k"].is_number() && v.is_number()));
      if (!same) { ++bad; std::cout << "value " << v << " text [" << out << "] -> " << r["k"] << "\n"; } }
    catch (const std::exception& e) { ++bad; std::cout << "value " << v << " text [" << out << "] error " << e.what() << "\n"; }
  }
  std::cout << "bad=" << bad << "\n"; return bad?1:0;
}
// second set:   std::vector<json> vals = { json("1-2"), json("0e1"), json("5-"), json("1.5e"), json("1e+"), json("1.2.3"), json("12abc"), json("1e5x"), json("1.5-"), json("1e2-"), json("1.e5"), json("0.e1"), json("0.5"), json(0.5), json(-0.25), json(1.5e-9), json(1e300), json(-0.0), json(0.0),json("0.") ,json("0E1"), json("1e-"), json("1..2"), json("1e1e1"), json("1e1.5")};
